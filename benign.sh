#!/bin/bash
# benign.sh <patch-file> [property-id...] — the false-alarm counterpart of ./selftest: apply a change that is meant to
# PRESERVE every property (a refactoring / alternative implementation) to a scratch copy of /repo and run the quick tier
# of the named checks (default: all 20) against it.  Prints one line per check: QUIET (exit 0, what we want),
# ALARM (a VIOLATION line — either the change is not benign after all or the check demands too much: look at it),
# or ERROR.  Not part of any registered command.
set -u
patch="$(realpath "$1")"; shift
[ $# -gt 0 ] || set -- C01 C02 C03 C04 C05 C06 C07 C08 C09 C10 C11 C12 C13 C14 C15 C16 C17 C18 C19 C20
scratch=$(mktemp -d /dev/shm/mtbl-ben-XXXXXX)
trap 'rm -rf "$scratch"' EXIT
# BASE=<commit>: apply the patch to that commit of /repo instead of the working tree (patches made before a later fix)
if [ -n "${BASE:-}" ]; then git -C /repo archive "$BASE" | tar -x -C "$scratch" || exit 2
else ( cd /repo && git ls-files -z | xargs -0 cp --parents -t "$scratch" ) || exit 2; fi
if ! ( cd "$scratch" && patch -p1 -s < "$patch" ); then echo "PATCH-FAILED $patch"; exit 2; fi
cd "$(dirname "$0")"
mkdir -p replays/benign
for p in "$@"; do
  out=$(VERIF_REPO="$scratch" VF_EVIDENCE_DIR="$scratch/evidence" timeout 1800 ./vf "$p" --tier "${TIER:-quick}" 2>"$scratch/err.$p"); rc=$?
  if [ $rc -eq 0 ] && ! echo "$out" | grep -q "^VIOLATION"; then echo "QUIET $p $(basename "$patch")"
  elif echo "$out" | grep -q "^VIOLATION"; then
     rp=$(echo "$out" | sed -n 's/^VIOLATION .*replay=//p' | head -1)
     keep="replays/benign/$(basename "$patch" .diff)-$p.case"
     case "$rp" in replays/new/*) mv "$rp" "$keep" 2>/dev/null ;; *) keep="$rp" ;; esac
     echo "ALARM $p $(basename "$patch") replay=$keep :: $(grep -v '^----' "$scratch/err.$p" | grep -m1 -v '^$' | cut -c1-260)"
  else echo "ERROR($rc) $p $(basename "$patch"): $(tail -3 "$scratch/err.$p" | tr '\n' ' ' | cut -c1-300)"; fi
done
