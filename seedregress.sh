#!/bin/bash
# seedregress.sh [id...] — re-run every filed seeded change (seeded/<id>/patch.diff) against the quick tier of the check(s)
# its meta.json names under caught_by, on a scratch copy of /repo.  Prints CAUGHT / MISSED per (seed, check); seeds whose
# caught_by is empty or thorough-only are listed as SKIPPED.  Not part of any registered command.
cd "$(dirname "$0")"
ids=("$@"); [ ${#ids[@]} -gt 0 ] || ids=($(ls seeded))
for id in "${ids[@]}"; do
  checks=$(python3 - "$id" <<'PY'
import json,sys,re
m=json.load(open('seeded/%s/meta.json'%sys.argv[1]))
out=[c for c in m.get('caught_by',[]) if re.fullmatch(r'C\d\d',c)]
print(' '.join(out[:1]))
PY
)
  if [ -z "$checks" ]; then echo "SKIPPED $id (no quick-tier check listed)"; continue; fi
  if ! ( cd /repo && git apply --check "/verif/seeded/$id/patch.diff" 2>/dev/null ); then echo "STALE $id (patch no longer applies to /repo HEAD)"; continue; fi
  ./selftest "seeded/$id/patch.diff" $checks | sed "s/patch.diff/$id/" | cut -c1-160
done
