// Core of the verification harness: byte strings, case (de)serialisation, fork-isolated
// execution, statistics, rapidcheck glue, replay.  Every property TU includes this.
#pragma once
#include <sanitizer/allocator_interface.h>
#include <rapidcheck.h>

#include <algorithm>
#include <cassert>
#include <cerrno>
#include <climits>
#include <csetjmp>
#include <csignal>
#include <cstdarg>
#include <cstdint>
#include <cstdio>
#include <cstdlib>
#include <cstring>
#include <fstream>
#include <functional>
#include <map>
#include <set>
#include <sstream>
#include <string>
#include <vector>

#include <fcntl.h>
#include <poll.h>
#include <sys/mman.h>
#include <sys/resource.h>
#include <sys/stat.h>
#include <sys/types.h>
#include <sys/wait.h>
#include <unistd.h>

extern "C" {
#include <mtbl.h>
}

namespace vf {

// ---------------------------------------------------------------- byte strings
typedef std::string bytes;  // raw bytes; NEVER compared with operator< (see bcmp3)

inline int bcmp3(const bytes &a, const bytes &b) {
  size_t n = std::min(a.size(), b.size());
  for (size_t i = 0; i < n; i++) {
    unsigned char x = (unsigned char)a[i], y = (unsigned char)b[i];
    if (x != y) return x < y ? -1 : 1;
  }
  if (a.size() == b.size()) return 0;
  return a.size() < b.size() ? -1 : 1;
}
struct BLess {
  bool operator()(const bytes &a, const bytes &b) const { return bcmp3(a, b) < 0; }
};
inline bool has_prefix(const bytes &k, const bytes &p) {
  return k.size() >= p.size() && memcmp(k.data(), p.data(), p.size()) == 0;
}
inline const uint8_t *U(const bytes &b) { return (const uint8_t *)b.data(); }

inline std::string hex(const bytes &b) {
  static const char *d = "0123456789abcdef";
  std::string s;
  s.reserve(b.size() * 2);
  for (unsigned char c : b) {
    s.push_back(d[c >> 4]);
    s.push_back(d[c & 15]);
  }
  return s;
}
inline int hexval(char c) {
  if (c >= '0' && c <= '9') return c - '0';
  if (c >= 'a' && c <= 'f') return c - 'a' + 10;
  if (c >= 'A' && c <= 'F') return c - 'A' + 10;
  return -1;
}
inline bytes unhex(const std::string &s) {
  bytes b;
  for (size_t i = 0; i + 1 < s.size(); i += 2) b.push_back((char)(hexval(s[i]) * 16 + hexval(s[i + 1])));
  return b;
}
// short printable form for messages
inline std::string show(const bytes &b) {
  if (b.size() <= 24) return "x'" + hex(b) + "'";
  return "x'" + hex(b.substr(0, 16)) + "..'(len " + std::to_string(b.size()) + ")";
}

inline uint64_t fnv1a(const std::string &s, uint64_t h = 1469598103934665603ULL) {
  for (unsigned char c : s) {
    h ^= c;
    h *= 1099511628211ULL;
  }
  return h;
}

// A byte string carried symbolically: literal head + generated tail (fill rule, length, seed).
// Keeps generation, shrinking and replay files small for multi-kilobyte strings.
struct BStr {
  bytes lit;
  uint32_t glen = 0;   // length of the generated tail
  uint32_t gseed = 0;  // seed of the fill rule
  uint8_t gkind = 0;   // 0 LCG bytes, 1 single repeated byte (gseed&0xff), 2 period-3 pattern, 3 ramp

  bytes expand() const {
    bytes out = lit;
    if (glen) {
      out.reserve(lit.size() + glen);
      uint32_t x = gseed * 2654435761u + 12345u;
      for (uint32_t i = 0; i < glen; i++) {
        unsigned char c;
        switch (gkind) {
          case 1: c = (unsigned char)gseed; break;
          case 2: c = (unsigned char)("abc"[i % 3] + (gseed & 3)); break;
          case 3: c = (unsigned char)(i + gseed); break;
          default:
            x = x * 1664525u + 1013904223u;
            c = (unsigned char)(x >> 24);
        }
        out.push_back((char)c);
      }
    }
    return out;
  }
  size_t size() const { return lit.size() + glen; }
  std::string ser() const {
    std::string s = lit.empty() ? "-" : hex(lit);
    if (glen) s += "+" + std::to_string((int)gkind) + ":" + std::to_string(glen) + ":" + std::to_string(gseed);
    return s;
  }
  static BStr parse(const std::string &t) {
    BStr b;
    size_t p = t.find('+');
    std::string h = t.substr(0, p);
    if (h != "-") b.lit = unhex(h);
    if (p != std::string::npos) {
      unsigned k = 0, l = 0, s = 0;
      sscanf(t.c_str() + p + 1, "%u:%u:%u", &k, &l, &s);
      b.gkind = (uint8_t)k;
      b.glen = l;
      b.gseed = s;
    }
    return b;
  }
  static BStr of(const bytes &b) {
    BStr r;
    r.lit = b;
    return r;
  }
};

// ---------------------------------------------------------------- line-oriented case files
struct Lines {
  std::vector<std::vector<std::string>> rows;
  static Lines parse(const std::string &text) {
    Lines L;
    std::istringstream in(text);
    std::string line;
    while (std::getline(in, line)) {
      if (line.empty() || line[0] == '#') continue;
      std::istringstream ls(line);
      std::vector<std::string> toks;
      std::string t;
      while (ls >> t) toks.push_back(t);
      if (!toks.empty()) L.rows.push_back(toks);
    }
    return L;
  }
};
struct Out {
  std::ostringstream o;
  template <class T>
  Out &operator<<(const T &v) {
    o << v;
    return *this;
  }
  std::string str() const { return o.str(); }
};
inline long long toll(const std::string &s) { return strtoll(s.c_str(), nullptr, 10); }
inline unsigned long long toull(const std::string &s) { return strtoull(s.c_str(), nullptr, 10); }

inline std::string read_file(const std::string &path) {
  std::ifstream f(path, std::ios::binary);
  std::stringstream ss;
  ss << f.rdbuf();
  return ss.str();
}
inline void write_file(const std::string &path, const std::string &data) {
  std::ofstream f(path, std::ios::binary | std::ios::trunc);
  f << data;
}

// ---------------------------------------------------------------- results & statistics
struct Result {
  bool fail = false;
  std::string msg;
  bool nontrivial = false;
  std::vector<std::string> tags;  // class labels this case falls into
  std::map<std::string, long long> counters;  // extra additive counters
  void failf(const char *fmt, ...) __attribute__((format(printf, 2, 3))) {
    if (fail) return;  // keep the first failure
    char buf[2048];
    va_list ap;
    va_start(ap, fmt);
    vsnprintf(buf, sizeof buf, fmt, ap);
    va_end(ap);
    fail = true;
    msg = buf;
  }
  void tag(const std::string &t) {
    if (std::find(tags.begin(), tags.end(), t) == tags.end()) tags.push_back(t);
  }
  std::string ser() const {
    std::ostringstream o;
    o << (fail ? "F" : "P") << (nontrivial ? "N" : "T") << "\n";
    for (auto &t : tags) o << "t " << t << "\n";
    for (auto &c : counters) o << "c " << c.first << " " << c.second << "\n";
    o << "m " << msg << "\n";
    return o.str();
  }
  static bool parse(const std::string &s, Result &r) {
    if (s.size() < 3) return false;
    std::istringstream in(s);
    std::string line;
    if (!std::getline(in, line) || line.size() < 2) return false;
    r.fail = line[0] == 'F';
    r.nontrivial = line[1] == 'N';
    bool saw_m = false;
    while (std::getline(in, line)) {
      if (line.rfind("t ", 0) == 0) r.tags.push_back(line.substr(2));
      else if (line.rfind("c ", 0) == 0) {
        size_t sp = line.find(' ', 2);
        r.counters[line.substr(2, sp - 2)] += atoll(line.c_str() + sp + 1);
      } else if (line.rfind("m ", 0) == 0) {
        r.msg = line.substr(2);
        saw_m = true;
        // message may span several lines
        while (std::getline(in, line)) r.msg += "\n" + line;
      }
    }
    return saw_m;
  }
};

struct Stats {
  long long evaluations = 0;
  long long failures = 0;
  std::set<uint64_t> nontrivial;  // hashes of distinct non-trivial cases
  std::map<std::string, long long> tags;
  std::map<std::string, long long> counters;
  std::vector<std::string> first_samples;
  std::map<uint64_t, std::string> low_hash_samples;  // deterministic "random" samples
  void add(const std::string &ser, const Result &r) {
    evaluations++;
    if (r.fail) failures++;
    uint64_t h = fnv1a(ser);
    if (r.nontrivial) nontrivial.insert(h);
    for (auto &t : r.tags) tags[t]++;
    for (auto &c : r.counters) counters[c.first] += c.second;
    if (r.nontrivial && ser.size() < 6000) {
      if (first_samples.size() < 2) first_samples.push_back(ser);
      low_hash_samples[h] = ser;
      if (low_hash_samples.size() > 2) low_hash_samples.erase(std::prev(low_hash_samples.end()));
    }
  }
  static std::string jstr(const std::string &s) {
    std::string o = "\"";
    for (unsigned char c : s) {
      if (c == '"') o += "\\\"";
      else if (c == '\\') o += "\\\\";
      else if (c == '\n') o += "\\n";
      else if (c < 0x20 || c >= 0x7f) {
        char b[8];
        snprintf(b, sizeof b, "\\u%04x", c);
        o += b;
      } else o.push_back((char)c);
    }
    return o + "\"";
  }
  void write(const std::string &dir) const {
    std::ostringstream o;
    o << "{\"evaluations\":" << evaluations << ",\"failures\":" << failures << ",\"tags\":{";
    bool first = true;
    for (auto &t : tags) {
      o << (first ? "" : ",") << jstr(t.first) << ":" << t.second;
      first = false;
    }
    o << "},\"counters\":{";
    first = true;
    for (auto &t : counters) {
      o << (first ? "" : ",") << jstr(t.first) << ":" << t.second;
      first = false;
    }
    o << "},\"samples\":[";
    first = true;
    for (auto &s : first_samples) {
      o << (first ? "" : ",") << jstr(s);
      first = false;
    }
    for (auto &s : low_hash_samples) {
      o << (first ? "" : ",") << jstr(s.second);
      first = false;
    }
    o << "]}";
    write_file(dir + "/stats.json", o.str());
    std::ofstream hf(dir + "/hashes.bin", std::ios::binary | std::ios::trunc);
    for (uint64_t h : nontrivial) hf.write((const char *)&h, 8);
  }
};

// ---------------------------------------------------------------- assertion interposition
// The library reports errors through assert().  The harness executable defines
// __assert_fail so that an assertion stop is distinguishable from any other death:
// in a child it exits with status 77 after printing the message; in-process (armed with
// ASSERT_RECOVER) it longjmps back.
extern "C" {
extern sigjmp_buf vf_assert_jmp;
extern volatile int vf_assert_armed;
extern char vf_last_assert[512];
}
#define VF_ASSERT_EXIT 77
#define VF_SAN_EXIT 66

#ifdef VF_MAIN
extern "C" {
sigjmp_buf vf_assert_jmp;
volatile int vf_assert_armed = 0;
char vf_last_assert[512];
void __assert_fail(const char *expr, const char *file, unsigned line, const char *func) {
  snprintf(vf_last_assert, sizeof vf_last_assert, "%s:%u: %s: Assertion `%s' failed.", file, line, func, expr);
  if (vf_assert_armed) {
    vf_assert_armed = 0;
    siglongjmp(vf_assert_jmp, 1);
  }
  fprintf(stderr, "VF-ASSERT %s\n", vf_last_assert);
  fflush(stderr);
  _exit(VF_ASSERT_EXIT);
}
const char *__asan_default_options() {
  return "exitcode=66:abort_on_error=0:detect_leaks=0:allocator_may_return_null=1:handle_abort=0:"
         // a bounded quarantine: the default 256 MB makes the (forking) worker's resident set grow to > 1 GB over a long
         // run, and fork() cost grows with it; 32 MB is far more than one case frees
         // malloc_context_size: every distinct allocation/free stack is kept for ever in ASan's stack depot; the generator's deeply
         // nested call chains made a worker grow by ~1.5 MB/s (1.8 GB after 90 minutes, each fork() paying for it).  Ten frames
         // keep the depot flat; the stack of the faulting ACCESS in a report is not affected by this limit.
         "detect_stack_use_after_return=0:print_summary=1:max_malloc_fill_size=0:quarantine_size_mb=32:malloc_context_size=10";
}
const char *__ubsan_default_options() { return "print_stacktrace=1:halt_on_error=1:exitcode=66"; }
}
#endif

// ---------------------------------------------------------------- fork-isolated execution
struct ChildRun {
  bool exited = false;
  int code = -1;
  bool signaled = false;
  int sig = 0;
  bool timed_out = false;
  std::string payload;  // what the child wrote to its result fd
  std::string err;      // tail of the child's stderr
  bool assert_stop() const { return exited && code == VF_ASSERT_EXIT; }
  bool sanitizer() const { return exited && code == VF_SAN_EXIT; }
  bool clean() const { return exited && code == 0; }
  std::string describe() const {
    std::ostringstream o;
    if (timed_out) o << "timed out; ";
    if (signaled) o << "killed by signal " << sig;
    else if (exited) o << "exit status " << code << (code == VF_ASSERT_EXIT ? " (assertion stop)" : code == VF_SAN_EXIT ? " (sanitizer report)" : "");
    if (!err.empty()) {
      std::string e = err.size() > 1500 ? err.substr(0, 1500) + "..." : err;
      o << "; stderr: " << e;
    }
    return o.str();
  }
};

extern std::string g_tmpdir;  // per-process scratch dir (under /dev/shm), removed at exit
extern int g_case_timeout_s;  // watchdog per isolated case (cases take milliseconds)
extern long g_rss_limit_mb;   // a child growing beyond this is killed (reported like a hang)
#ifdef VF_MAIN
std::string g_tmpdir;
int g_case_timeout_s = 45;
long g_rss_limit_mb = 3072;
#endif

inline void ensure_tmpdir() {
  if (!g_tmpdir.empty()) return;
  const char *base = getenv("VF_TMP");
  std::string b = base ? base : "/dev/shm";
  char tmpl[256];
  snprintf(tmpl, sizeof tmpl, "%s/vf-%d-XXXXXX", b.c_str(), (int)getpid());
  if (!mkdtemp(tmpl)) {
    snprintf(tmpl, sizeof tmpl, "/tmp/vf-%d-XXXXXX", (int)getpid());
    if (!mkdtemp(tmpl)) {
      perror("mkdtemp");
      exit(2);
    }
  }
  g_tmpdir = tmpl;
}
inline void rm_rf(const std::string &p) {
  std::string cmd = "rm -rf '" + p + "'";
  if (system(cmd.c_str())) {}
}

// Runs fn(result_fd) in a forked child.  stderr of the child is captured.
inline ChildRun run_child(const std::function<void(int)> &fn, int timeout_s = 0, bool keep_stdout = true,
                          std::string *stdout_capture = nullptr) {
  ensure_tmpdir();
  if (timeout_s <= 0) timeout_s = g_case_timeout_s;
  ChildRun cr;
  int pfd[2];
  if (pipe(pfd)) {
    perror("pipe");
    exit(2);
  }
  std::string errpath = g_tmpdir + "/child.err";
  std::string outpath = g_tmpdir + "/child.out";
  fflush(stdout);
  fflush(stderr);
  pid_t pid = fork();
  if (pid < 0) {
    perror("fork");
    exit(2);
  }
  if (pid == 0) {
    close(pfd[0]);
    {
      struct rlimit rl;
      if (getrlimit(RLIMIT_NOFILE, &rl) == 0 && rl.rlim_cur < rl.rlim_max) {
        rl.rlim_cur = rl.rlim_max;
        setrlimit(RLIMIT_NOFILE, &rl);
      }
    }
    int efd = open(errpath.c_str(), O_WRONLY | O_CREAT | O_TRUNC, 0600);
    if (efd >= 0) {
      dup2(efd, 2);
      close(efd);
    }
    if (stdout_capture) {
      int ofd = open(outpath.c_str(), O_WRONLY | O_CREAT | O_TRUNC, 0600);
      if (ofd >= 0) {
        dup2(ofd, 1);
        close(ofd);
      }
    } else if (!keep_stdout) {
      int nfd = open("/dev/null", O_WRONLY);
      dup2(nfd, 1);
      close(nfd);
    }
    fn(pfd[1]);
    fflush(stdout);
    fflush(stderr);
    _exit(0);
  }
  close(pfd[1]);
  // read payload with timeout; also watch the child's resident set (a runaway allocation
  // loop in a broken tree must not take the machine down)
  char buf[65536];
  int remaining_ms = timeout_s * 1000;
  const int tick = 200;
  for (;;) {
    struct pollfd p = {pfd[0], POLLIN, 0};
    int pr = poll(&p, 1, tick);
    if (pr < 0 && errno == EINTR) continue;
    if (pr == 0) {
      remaining_ms -= tick;
      long rss_pages = 0;
      {
        char sp[64];
        snprintf(sp, sizeof sp, "/proc/%d/statm", (int)pid);
        FILE *sf = fopen(sp, "r");
        if (sf) {
          long a = 0;
          if (fscanf(sf, "%ld %ld", &a, &rss_pages) != 2) rss_pages = 0;
          fclose(sf);
        }
      }
      if (remaining_ms <= 0 || rss_pages > g_rss_limit_mb * 256L) {
        cr.timed_out = true;
        cr.payload += rss_pages > g_rss_limit_mb * 256L ? "\n[killed: resident set exceeded limit]" : "";
        kill(pid, SIGKILL);
        break;
      }
      continue;
    }
    ssize_t n = read(pfd[0], buf, sizeof buf);
    if (n < 0 && errno == EINTR) continue;
    if (n <= 0) break;
    cr.payload.append(buf, (size_t)n);
  }
  close(pfd[0]);
  int st = 0;
  while (waitpid(pid, &st, 0) < 0 && errno == EINTR) {}
  if (WIFEXITED(st)) {
    cr.exited = true;
    cr.code = WEXITSTATUS(st);
  } else if (WIFSIGNALED(st)) {
    cr.signaled = true;
    cr.sig = WTERMSIG(st);
  }
  cr.err = read_file(errpath);
  if (cr.err.size() > 6000) cr.err = cr.err.substr(0, 3000) + "\n...\n" + cr.err.substr(cr.err.size() - 2500);
  if (stdout_capture) *stdout_capture = read_file(outpath);
  return cr;
}

inline void write_all_fd(int fd, const std::string &s) {
  size_t off = 0;
  while (off < s.size()) {
    ssize_t n = ::write(fd, s.data() + off, s.size() - off);
    if (n < 0 && errno == EINTR) continue;
    if (n <= 0) break;
    off += (size_t)n;
  }
}

// Standard isolated run: body fills a Result in the child; any abnormal death is a failure.
inline Result run_isolated(const std::function<void(Result &)> &body, int timeout_s = 0) {
  ChildRun cr = run_child([&](int fd) {
    Result r;
    body(r);
    write_all_fd(fd, r.ser());
  }, timeout_s);
  Result r;
  bool parsed = Result::parse(cr.payload, r);
  if (cr.timed_out) {
    r.fail = true;
    r.msg = "TIMEOUT: case exceeded the watchdog (time or memory); " + cr.describe();
    r.tag("watchdog");
    return r;
  }
  if (!cr.clean() || !parsed) {
    std::string prior = r.fail ? ("; earlier oracle failure: " + r.msg) : "";
    r.fail = true;
    r.msg = "child died: " + cr.describe() + prior;
  }
  return r;
}

// ---------------------------------------------------------------- rapidcheck helpers
// inRange collapses to its lower bound at small sizes; always resize.
inline int pick(int lo, int hi) {  // inclusive
  if (hi <= lo) return lo;
  return *rc::gen::resize(100, rc::gen::inRange<int>(lo, hi + 1));
}
inline uint32_t pick_u32() { return *rc::gen::resize(100, rc::gen::arbitrary<uint32_t>()); }
inline bool chance(int percent) { return pick(0, 99) < percent; }
template <class T>
inline T one_of(std::initializer_list<T> xs) {
  std::vector<T> v(xs);
  return v[(size_t)pick(0, (int)v.size() - 1)];
}
// weighted choice: returns index
inline int weighted(std::initializer_list<int> ws) {
  int tot = 0;
  for (int w : ws) tot += w;
  int r = pick(0, tot - 1), i = 0;
  for (int w : ws) {
    if (r < w) return i;
    r -= w;
    i++;
  }
  return 0;
}
inline int current_size() {
  return *rc::gen::withSize([](int s) { return rc::gen::just(s); });
}


// ---------------------------------------------------------------- text-level shrinking
// Generic delta debugging over the line-oriented case text: (1) remove chunks of lines,
// (2) simplify individual tokens (integers towards 0, byte strings shorter / plainer,
// symbolic tails shorter).  A candidate is accepted only if it parses to a case that the
// property declares valid (Case::valid) and that still fails.
inline std::vector<std::string> token_candidates(const std::string &tok) {
  std::vector<std::string> out;
  size_t eq = tok.find('=');
  std::string name = eq == std::string::npos ? "" : tok.substr(0, eq + 1);
  std::string v = eq == std::string::npos ? tok : tok.substr(eq + 1);
  auto is_int = [](const std::string &x) {
    if (x.empty()) return false;
    size_t i = x[0] == '-' ? 1 : 0;
    if (i >= x.size()) return false;
    for (; i < x.size(); i++)
      if (x[i] < '0' || x[i] > '9') return false;
    return true;
  };
  if (is_int(v) && v.size() < 19) {
    long long n = atoll(v.c_str());
    for (long long c : {0LL, 1LL, n / 2, n - 1, n / 10})
      if (c != n) out.push_back(name + std::to_string(c));
    return out;
  }
  // byte string:  HEX | - [ +kind:len:seed ]
  size_t plus = v.find('+');
  std::string h = v.substr(0, plus);
  bool hexish = h == "-" || (!h.empty() && h.size() % 2 == 0);
  if (hexish && h != "-")
    for (char ch : h)
      if (hexval(ch) < 0) hexish = false;
  if (!hexish) return out;
  std::string tail = plus == std::string::npos ? "" : v.substr(plus);
  std::string lit = h == "-" ? "" : h;
  auto mk = [&](const std::string &l, const std::string &t) { return name + ((l.empty() ? "-" : l) + t); };
  if (!tail.empty()) {
    unsigned k = 0, l = 0, sd = 0;
    sscanf(tail.c_str() + 1, "%u:%u:%u", &k, &l, &sd);
    out.push_back(mk(lit, ""));
    auto t = [&](unsigned kk, unsigned ll, unsigned ss) {
      return "+" + std::to_string(kk) + ":" + std::to_string(ll) + ":" + std::to_string(ss);
    };
    if (l > 1) out.push_back(mk(lit, t(k, l / 2, sd)));
    if (l > 0) out.push_back(mk(lit, t(k, l - 1, sd)));
    if (k != 1) out.push_back(mk(lit, t(1, l, 97)));
    if (sd != 0 && k != 1) out.push_back(mk(lit, t(k, l, 0)));
  }
  if (!lit.empty()) {
    out.push_back(mk("", tail));
    size_t nb = lit.size() / 2;
    if (nb > 1) {
      out.push_back(mk(lit.substr(0, (nb / 2) * 2), tail));
      out.push_back(mk(lit.substr((nb / 2) * 2), tail));
    }
    out.push_back(mk(lit.substr(0, lit.size() - 2), tail));
    out.push_back(mk(lit.substr(2), tail));
    // plainer bytes
    std::string plain(lit.size(), '0');
    for (size_t i = 0; i < nb; i++) {
      plain[2 * i] = '6';
      plain[2 * i + 1] = '1';
    }
    if (plain != lit) out.push_back(mk(plain, tail));
    if (nb <= 64)
      for (size_t i = 0; i < nb; i++) {
        if (lit.compare(2 * i, 2, "61") == 0) continue;
        std::string m = lit;
        m[2 * i] = '6';
        m[2 * i + 1] = '1';
        out.push_back(mk(m, tail));
      }
  }
  return out;
}

template <class Case>
std::string shrink_text(const std::string &orig, const std::function<Result(const Case &)> &run, long long budget,
                        std::string &msg, Stats &stats) {
  auto split = [](const std::string &t) {
    std::vector<std::string> ls;
    std::istringstream in(t);
    std::string l;
    while (std::getline(in, l))
      if (!l.empty()) ls.push_back(l);
    return ls;
  };
  auto join = [](const std::vector<std::string> &ls) {
    std::string t;
    for (auto &l : ls) t += l + "\n";
    return t;
  };
  long long used = 0;
  time_t t_start = time(nullptr);
  int saved_timeout = g_case_timeout_s;
  g_case_timeout_s = std::min(g_case_timeout_s, 5);  // hangs are expensive to shrink
  struct Restore {
    int v;
    ~Restore() { g_case_timeout_s = v; }
  } restore{saved_timeout};
  auto fails = [&](const std::string &t) -> bool {
    if (used >= budget) return false;
    if (time(nullptr) - t_start > 40) {  // bounds shrinking effort only; never decides a verdict
      used = budget;
      return false;
    }
    Case c = Case::parse(t);
    if (!c.valid()) return false;
    used++;
    Result r = run(c);
    stats.counters["shrink_executions"]++;
    if (r.fail) {
      msg = r.msg;
      return true;
    }
    return false;
  };
  std::vector<std::string> cur = split(Case::parse(orig).ser());
  auto removable = [](const std::string &l) { return l.rfind("property", 0) != 0 && l.rfind("config", 0) != 0; };
  // pass 1: ddmin over removable lines
  for (int round = 0; round < 3 && used < budget; round++) {
    std::vector<size_t> idx;
    for (size_t i = 0; i < cur.size(); i++)
      if (removable(cur[i])) idx.push_back(i);
    size_t n = 2;
    bool any_round = false;
    while (!idx.empty() && used < budget) {
      size_t chunk = (idx.size() + n - 1) / n;
      bool removed = false;
      for (size_t start = 0; start < idx.size() && used < budget;) {
        std::set<size_t> drop(idx.begin() + (long)start, idx.begin() + (long)std::min(idx.size(), start + chunk));
        std::vector<std::string> cand;
        for (size_t i = 0; i < cur.size(); i++)
          if (!drop.count(i)) cand.push_back(cur[i]);
        if (fails(join(cand))) {
          cur = cand;
          idx.clear();
          for (size_t i = 0; i < cur.size(); i++)
            if (removable(cur[i])) idx.push_back(i);
          removed = any_round = true;
        } else start += chunk;
      }
      if (!removed) {
        if (chunk <= 1) break;
        n = std::min(n * 2, idx.size());
      } else n = std::max<size_t>(n - 1, 2);
    }
    // pass 2: token simplification
    bool any_tok = false;
    for (size_t li = 0; li < cur.size() && used < budget; li++) {
      if (cur[li].rfind("property", 0) == 0) continue;
      std::vector<std::string> toks;
      {
        std::istringstream ls(cur[li]);
        std::string t;
        while (ls >> t) toks.push_back(t);
      }
      // token deletion (e.g. individual keys of a "src" line)
      for (size_t ti = toks.size(); ti-- > 1 && used < budget && toks.size() > 2;) {
        std::vector<std::string> t2 = toks;
        t2.erase(t2.begin() + (long)ti);
        std::string line;
        for (size_t k = 0; k < t2.size(); k++) line += (k ? " " : "") + t2[k];
        std::vector<std::string> cand = cur;
        cand[li] = line;
        if (fails(join(cand))) {
          cur = cand;
          toks = t2;
          any_tok = true;
        }
      }
      for (size_t ti = 1; ti < toks.size() && used < budget; ti++) {
        bool progress = true;
        int guard = 0;
        while (progress && used < budget && guard++ < 40) {
          progress = false;
          for (auto &cand_tok : token_candidates(toks[ti])) {
            std::vector<std::string> t2 = toks;
            t2[ti] = cand_tok;
            std::string line;
            for (size_t k = 0; k < t2.size(); k++) line += (k ? " " : "") + t2[k];
            std::vector<std::string> cand = cur;
            cand[li] = line;
            if (fails(join(cand))) {
              cur = cand;
              toks = t2;
              progress = any_tok = true;
              break;
            }
          }
        }
      }
    }
    if (!any_round && !any_tok) break;
  }
  return Case::parse(join(cur)).ser();
}

// ---------------------------------------------------------------- sanitizer death hook for in-process enumerators
// Properties that evaluate millions of cases in-process (C16, C17) cannot fork per case.  They keep the case being
// evaluated in cheap globals and register g_death_cb; when a sanitizer aborts the worker, the hook files that case
// as fail.case so that the driver reports a violation with a replay instead of a harness error.
extern std::string g_death_dir;
extern void (*g_death_cb)(std::string &case_text, std::string &msg);
#ifdef VF_MAIN
std::string g_death_dir;
void (*g_death_cb)(std::string &, std::string &) = nullptr;
extern "C" void __sanitizer_set_death_callback(void (*)(void));
static void vf_on_sanitizer_death() {
  if (!g_death_cb || g_death_dir.empty()) return;
  std::string c, m;
  g_death_cb(c, m);
  if (c.empty()) return;
  write_file(g_death_dir + "/fail.case", c);
  write_file(g_death_dir + "/fail.msg", "sanitizer report while evaluating this case in-process (see the worker log): " + m);
}
#endif

// ---------------------------------------------------------------- per-property entry points
// A property TU provides:
//   struct Case { std::string ser() const; static Case parse(const std::string&); };
//   Case gen_case();                 (uses rapidcheck imperatively)
//   Result run_case(const Case&);    (does its own isolation if needed)
//   const char* PROP_ID;
// and may provide int extra_mode(const std::string& mode, int argc, char** argv, Stats&).

struct WorkerOpts {
  std::string outdir = ".";
  std::string mode = "rc";
  long long cases = 100;
  int max_size = 100;
  unsigned long long seed = 1;
  std::string tier = "quick";
  int worker = 0, nworkers = 1;
  std::map<std::string, std::string> kv;
  long long geti(const std::string &k, long long d) const {
    auto it = kv.find(k);
    return it == kv.end() ? d : atoll(it->second.c_str());
  }
};

template <class Case>
int vf_main(int argc, char **argv, const char *prop_id, std::function<Case()> gen,
            std::function<Result(const Case &)> run,
            std::function<int(const WorkerOpts &, Stats &)> extra = nullptr) {
  WorkerOpts o;
  std::string replay;
  for (int i = 1; i < argc; i++) {
    std::string a = argv[i];
    auto next = [&]() -> std::string { return i + 1 < argc ? argv[++i] : ""; };
    if (a == "--replay") replay = next();
    else if (a == "--out") o.outdir = next();
    else if (a == "--mode") o.mode = next();
    else if (a == "--cases") o.cases = atoll(next().c_str());
    else if (a == "--max-size") o.max_size = atoi(next().c_str());
    else if (a == "--seed") o.seed = strtoull(next().c_str(), nullptr, 10);
    else if (a == "--tier") o.tier = next();
    else if (a == "--worker") o.worker = atoi(next().c_str());
    else if (a == "--nworkers") o.nworkers = atoi(next().c_str());
    else if (a.rfind("--", 0) == 0 && a.find('=') != std::string::npos) {
      size_t e = a.find('=');
      o.kv[a.substr(2, e - 2)] = a.substr(e + 1);
    }
  }
  g_case_timeout_s = (int)o.geti("timeout", g_case_timeout_s);
  ensure_tmpdir();
  struct Cleanup {
    pid_t owner = getpid();
    ~Cleanup() {
      if (getpid() == owner && !g_tmpdir.empty()) rm_rf(g_tmpdir);
    }
  } cleanup;
  setvbuf(stdout, nullptr, _IOLBF, 0);

  if (!replay.empty()) {
    std::string text = read_file(replay);
    if (text.empty()) {
      fprintf(stderr, "cannot read replay file %s\n", replay.c_str());
      return 2;
    }
    Case c = Case::parse(text);
    Result r = run(c);
    if (r.fail) {
      printf("REPLAY-FAIL property=%s file=%s\n%s\n", prop_id, replay.c_str(), r.msg.c_str());
      return 1;
    }
    printf("REPLAY-PASS property=%s file=%s%s\n", prop_id, replay.c_str(), r.nontrivial ? " (non-trivial)" : "");
    return 0;
  }

  Stats stats;
  int rc_ret = 0;
  g_death_dir = o.outdir;
  __sanitizer_set_death_callback(vf_on_sanitizer_death);
  if (o.mode == "rc") {
    char params[256];
    snprintf(params, sizeof params, "seed=%llu max_success=%lld max_size=%d max_discard_ratio=50 noshrink=1",
             o.seed, o.cases, o.max_size);
    setenv("RC_PARAMS", params, 1);
    std::string lastfail, lastmsg;
    // rapidcheck is the generator; shrinking is done by shrink_text() below on the serialised
    // case (rapidcheck's own shrinker re-generates the whole case per candidate, which is far
    // too slow for fork-isolated cases with thousands of picks).
    bool ok = rc::check(std::string(prop_id), [&]() {
      Case c = gen();
      std::string s = c.ser();
      Result r = run(c);
      stats.add(s, r);
      if (getenv("VF_MEMDEBUG") && stats.evaluations % 500 == 0)
        fprintf(stderr, "memdebug: cases=%lld allocated=%zu heap=%zu\n", stats.evaluations, (size_t)__sanitizer_get_current_allocated_bytes(),
                (size_t)__sanitizer_get_heap_size());
      if (r.fail) {
        lastfail = s;
        lastmsg = r.msg;
        write_file(o.outdir + "/fail.case", s);
        write_file(o.outdir + "/fail.msg", r.msg);
        RC_FAIL(r.msg);
      }
    });
    if (!ok && !lastfail.empty()) {
      write_file(o.outdir + "/fail.orig.case", lastfail);
      long long budget = o.geti("shrink-budget", 1500);
      std::string msg = lastmsg;
      std::string small = shrink_text<Case>(lastfail, run, budget, msg, stats);
      write_file(o.outdir + "/fail.case", small);
      write_file(o.outdir + "/fail.msg", msg);
    }
    rc_ret = ok ? 0 : 1;
  } else if (extra) {
    rc_ret = extra(o, stats);
  } else {
    fprintf(stderr, "unknown mode %s\n", o.mode.c_str());
    return 2;
  }
  stats.write(o.outdir);
  return rc_ret;
}

// helper for extra (enumerating) modes: run one case, record it, persist failure
template <class Case>
inline bool enum_step(const WorkerOpts &o, Stats &stats, const Case &c, const std::function<Result(const Case &)> &run) {
  std::string s = c.ser();
  Result r = run(c);
  stats.add(s, r);
  if (r.fail) {
    write_file(o.outdir + "/fail.case", s);
    write_file(o.outdir + "/fail.msg", r.msg);
    fprintf(stderr, "ENUM-FAIL: %s\n", r.msg.c_str());
    return false;
  }
  return true;
}

}  // namespace vf
