// Independent MTBL v1/v2 decoder and parametric encoder, written from the file format
// (man page mtbl_format / LevelDB block layout), sharing no code with the library:
// own varint / fixed / CRC32C, and the *system* compression libraries called directly.
#pragma once
#include "vf.h"
#include "tbl.h"

#include <lz4.h>
#include <lz4hc.h>
#include <snappy-c.h>
#include <zlib.h>
#include <zstd.h>

namespace vf {
namespace ref {

// ---------------------------------------------------------------- primitives
inline uint32_t crc32c_bitwise(const uint8_t *p, size_t n) {
  uint32_t crc = 0xFFFFFFFFu;
  for (size_t i = 0; i < n; i++) {
    crc ^= p[i];
    for (int k = 0; k < 8; k++) crc = (crc >> 1) ^ (0x82F63B78u & (0u - (crc & 1u)));
  }
  return ~crc;
}
// table-driven variant of the same reference (used where megabytes are checksummed)
inline uint32_t crc32c_ref(const uint8_t *p, size_t n) {
  static uint32_t T[256];
  static bool init = false;
  if (!init) {
    for (uint32_t i = 0; i < 256; i++) {
      uint32_t c = i;
      for (int k = 0; k < 8; k++) c = (c >> 1) ^ (0x82F63B78u & (0u - (c & 1u)));
      T[i] = c;
    }
    init = true;
  }
  uint32_t crc = 0xFFFFFFFFu;
  for (size_t i = 0; i < n; i++) crc = T[(crc ^ p[i]) & 0xff] ^ (crc >> 8);
  return ~crc;
}
inline void put_varint(bytes &o, uint64_t v) {
  while (v >= 0x80) {
    o.push_back((char)((v & 0x7f) | 0x80));
    v >>= 7;
  }
  o.push_back((char)v);
}
inline bytes varint_bytes(uint64_t v) {
  bytes b;
  put_varint(b, v);
  return b;
}
// returns bytes consumed, 0 on error (truncated / longer than 10 bytes)
inline size_t get_varint(const uint8_t *p, size_t avail, uint64_t &v) {
  v = 0;
  for (size_t i = 0; i < avail && i < 10; i++) {
    v |= (uint64_t)(p[i] & 0x7f) << (7 * i);
    if (!(p[i] & 0x80)) return i + 1;
  }
  return 0;
}
inline void put_le32(bytes &o, uint32_t v) {
  for (int i = 0; i < 4; i++) o.push_back((char)((v >> (8 * i)) & 0xff));
}
inline void put_le64(bytes &o, uint64_t v) {
  for (int i = 0; i < 8; i++) o.push_back((char)((v >> (8 * i)) & 0xff));
}
inline uint32_t get_le32(const uint8_t *p) { return (uint32_t)p[0] | (uint32_t)p[1] << 8 | (uint32_t)p[2] << 16 | (uint32_t)p[3] << 24; }
inline uint64_t get_le64(const uint8_t *p) { return (uint64_t)get_le32(p) | (uint64_t)get_le32(p + 4) << 32; }

static const uint32_t MAGIC_V1 = 0x77846676u, MAGIC_V2 = 0x4D54424Cu;
enum { NONE = 0, SNAPPY = 1, ZLIB = 2, LZ4 = 3, LZ4HC = 4, ZSTD = 5 };

// ---------------------------------------------------------------- (de)compression via system libraries
inline bool decompress(int algo, const bytes &in, bytes &out, std::string &err) {
  switch (algo) {
    case NONE: out = in; return true;
    case SNAPPY: {
      size_t n = 0;
      if (snappy_uncompressed_length(in.data(), in.size(), &n) != SNAPPY_OK) { err = "snappy length"; return false; }
      out.resize(n);
      if (snappy_uncompress(in.data(), in.size(), &out[0], &n) != SNAPPY_OK) { err = "snappy data"; return false; }
      out.resize(n);
      return true;
    }
    case ZLIB: {
      z_stream zs;
      memset(&zs, 0, sizeof zs);
      if (inflateInit(&zs) != Z_OK) { err = "inflateInit"; return false; }
      zs.next_in = (Bytef *)in.data();
      zs.avail_in = (uInt)in.size();
      out.clear();
      char buf[65536];
      int zr;
      do {
        zs.next_out = (Bytef *)buf;
        zs.avail_out = sizeof buf;
        zr = inflate(&zs, Z_NO_FLUSH);
        if (zr != Z_OK && zr != Z_STREAM_END) { inflateEnd(&zs); err = "inflate error " + std::to_string(zr); return false; }
        out.append(buf, sizeof buf - zs.avail_out);
      } while (zr != Z_STREAM_END);
      bool ok = zs.avail_in == 0;
      inflateEnd(&zs);
      if (!ok) err = "trailing bytes after zlib stream";
      return ok;
    }
    case LZ4:
    case LZ4HC: {
      if (in.size() < 4) { err = "lz4 too short"; return false; }
      uint32_t n = get_le32((const uint8_t *)in.data());
      out.resize(n);
      int r = LZ4_decompress_safe(in.data() + 4, n ? &out[0] : (char *)"", (int)in.size() - 4, (int)n);
      if (r < 0 || (uint32_t)r != n) { err = "lz4 data"; return false; }
      return true;
    }
    case ZSTD: {
      unsigned long long n = ZSTD_getFrameContentSize(in.data(), in.size());
      if (n == ZSTD_CONTENTSIZE_ERROR || n == ZSTD_CONTENTSIZE_UNKNOWN) { err = "zstd frame size"; return false; }
      out.resize((size_t)n);
      size_t r = ZSTD_decompress(n ? &out[0] : (char *)"", (size_t)n, in.data(), in.size());
      if (ZSTD_isError(r) || r != n) { err = "zstd data"; return false; }
      return true;
    }
  }
  err = "unknown algorithm " + std::to_string(algo);
  return false;
}
// zlib_wbits: 0 = compress2 (window 2^15); 9..15 = a deflate stream declaring that (smaller) window in its header, which is
// just as legal a zlib stream and is what an encoder tuned for small blocks emits
inline bool compress(int algo, int level, const bytes &in, bytes &out, int zlib_wbits = 0) {
  switch (algo) {
    case NONE: out = in; return true;
    case SNAPPY: {
      size_t n = snappy_max_compressed_length(in.size());
      out.resize(n);
      if (snappy_compress(in.data(), in.size(), &out[0], &n) != SNAPPY_OK) return false;
      out.resize(n);
      return true;
    }
    case ZLIB: {
      if (level < -1) level = -1;
      if (level > 9) level = 9;
      uLongf n = compressBound((uLong)in.size()) + 64;
      out.resize(n);
      if (zlib_wbits >= 9 && zlib_wbits <= 15) {
        z_stream zs;
        memset(&zs, 0, sizeof zs);
        if (deflateInit2(&zs, level, Z_DEFLATED, zlib_wbits, 8, Z_DEFAULT_STRATEGY) != Z_OK) return false;
        zs.next_in = (Bytef *)in.data();
        zs.avail_in = (uInt)in.size();
        zs.next_out = (Bytef *)&out[0];
        zs.avail_out = (uInt)n;
        int zr = deflate(&zs, Z_FINISH);
        n = zs.total_out;
        deflateEnd(&zs);
        if (zr != Z_STREAM_END) return false;
        out.resize(n);
        return true;
      }
      if (compress2((Bytef *)&out[0], &n, (const Bytef *)in.data(), (uLong)in.size(), level) != Z_OK) return false;
      out.resize(n);
      return true;
    }
    case LZ4:
    case LZ4HC: {
      int bound = LZ4_compressBound((int)in.size());
      out.assign(4 + (size_t)bound, '\0');
      int r = algo == LZ4 ? LZ4_compress_default(in.data(), &out[4], (int)in.size(), bound)
                          : LZ4_compress_HC(in.data(), &out[4], (int)in.size(), bound, level < 0 ? 0 : level);
      if (r <= 0) return false;
      out.resize(4 + (size_t)r);
      uint32_t n = (uint32_t)in.size();
      for (int i = 0; i < 4; i++) out[(size_t)i] = (char)((n >> (8 * i)) & 0xff);
      return true;
    }
    case ZSTD: {
      if (level < 1) level = 1;
      if (level > ZSTD_maxCLevel()) level = ZSTD_maxCLevel();
      size_t bound = ZSTD_compressBound(in.size());
      out.resize(bound);
      size_t r = ZSTD_compress(&out[0], bound, in.data(), in.size(), level);
      if (ZSTD_isError(r)) return false;
      out.resize(r);
      return true;
    }
  }
  return false;
}

// ---------------------------------------------------------------- decoder
struct DEntry {
  uint32_t shared = 0, non_shared = 0, vlen = 0;
  size_t off = 0;      // offset of the entry header inside the decoded block
  size_t hdr_len = 0;  // bytes of the three varints
  bool canonical = true;
  bytes key, val;
};
struct DBlock {
  uint64_t offset = 0;        // file offset of the block's length prefix
  uint64_t stored_len = 0;    // length of the stored (possibly compressed) bytes
  unsigned len_prefix = 0;    // bytes occupied by the length prefix
  bool len_canonical = true;  // v2: varint is minimal
  uint32_t crc_field = 0;
  uint32_t crc_calc = 0;
  bytes raw;  // decoded (uncompressed) block contents
  std::vector<DEntry> entries;
  std::vector<uint64_t> restarts;
  bool restart64 = false;
  uint64_t restart_array_off = 0;
  uint64_t total() const { return len_prefix + 4 + stored_len; }
};
struct DFile {
  std::string err;  // empty when the file decoded
  int version = 0;  // 1 or 2
  uint64_t f[9] = {0};  // index_block_offset, data_block_size, compression_algorithm, count_entries,
                        // count_data_blocks, bytes_data_blocks, bytes_index_block, bytes_keys, bytes_values
  bool padding_zero = true;
  uint32_t magic = 0;
  DBlock index;
  std::vector<DBlock> data;
  uint64_t first_block_off = 0;  // where the data blocks start (= foreign prefix length)
  KVs all() const {
    KVs o;
    for (auto &b : data)
      for (auto &e : b.entries) o.emplace_back(e.key, e.val);
    return o;
  }
};

inline bool decode_block_contents(DBlock &b, std::string &err) {
  const uint8_t *p = (const uint8_t *)b.raw.data();
  size_t n = b.raw.size();
  if (n < 8) { err = "block shorter than a restart array"; return false; }
  uint32_t nr = get_le32(p + n - 4);
  if (nr == 0) { err = "num_restarts is zero"; return false; }
  // width of the restart array: 32-bit unless a 32-bit array would start beyond 2^32-1
  uint64_t need32 = 4 + (uint64_t)nr * 4;
  if (need32 > n) { err = "restart array larger than block"; return false; }
  uint64_t ra = n - need32;
  b.restart64 = false;
  if (ra > 0xFFFFFFFFull) {
    uint64_t need64 = 4 + (uint64_t)nr * 8;
    if (need64 > n) { err = "64-bit restart array larger than block"; return false; }
    ra = n - need64;
    b.restart64 = true;
  }
  b.restart_array_off = ra;
  for (uint32_t i = 0; i < nr; i++) b.restarts.push_back(b.restart64 ? get_le64(p + ra + 8ull * i) : get_le32(p + ra + 4ull * i));
  size_t pos = 0;
  bytes prev;
  while (pos < ra) {
    DEntry e;
    e.off = pos;
    uint64_t v[3];
    size_t q = pos;
    for (int k = 0; k < 3; k++) {
      size_t c = get_varint(p + q, (size_t)ra - q, v[k]);
      if (!c || v[k] > 0xFFFFFFFFull) { err = "bad entry header varint at " + std::to_string(q); return false; }
      if (c != varint_bytes(v[k]).size()) e.canonical = false;
      q += c;
    }
    e.hdr_len = q - pos;
    e.shared = (uint32_t)v[0];
    e.non_shared = (uint32_t)v[1];
    e.vlen = (uint32_t)v[2];
    if ((uint64_t)e.non_shared + e.vlen > ra - q) { err = "entry at " + std::to_string(pos) + " overruns the block"; return false; }
    if (e.shared > prev.size()) { err = "entry at " + std::to_string(pos) + " shares more than the previous key has"; return false; }
    e.key = prev.substr(0, e.shared) + bytes((const char *)p + q, e.non_shared);
    e.val = bytes((const char *)p + q + e.non_shared, e.vlen);
    prev = e.key;
    pos = q + e.non_shared + e.vlen;
    b.entries.push_back(std::move(e));
  }
  return true;
}

// `img` holds the file's bytes from absolute offset `base` onward (base = 0: the whole file); `off` and `limit` are absolute
inline bool decode_block_at(const bytes &img, uint64_t off, uint64_t limit, int version, int algo, DBlock &b, std::string &err, uint64_t base = 0) {
  const uint8_t *d = (const uint8_t *)img.data() - base;  // never dereferenced below `base`
  b.offset = off;
  if (off < base) { err = "block offset " + std::to_string(off) + " lies before the table's first byte " + std::to_string(base); return false; }
  if (off >= limit) { err = "block offset beyond limit"; return false; }
  if (version == 1) {
    if (limit - off < 8) { err = "truncated v1 block header"; return false; }
    b.stored_len = get_le32(d + off);
    b.len_prefix = 4;
  } else {
    uint64_t v;
    size_t c = get_varint(d + off, (size_t)(limit - off), v);
    if (!c) { err = "bad block length varint"; return false; }
    b.stored_len = v;
    b.len_prefix = (unsigned)c;
    b.len_canonical = c == varint_bytes(v).size();
  }
  if (limit - off < (uint64_t)b.len_prefix + 4 || b.stored_len > limit - off - b.len_prefix - 4) { err = "block at " + std::to_string(off) + " overruns its region"; return false; }
  b.crc_field = get_le32(d + off + b.len_prefix);
  const uint8_t *stored = d + off + b.len_prefix + 4;
  b.crc_calc = crc32c_ref(stored, (size_t)b.stored_len);
  bytes st((const char *)stored, (size_t)b.stored_len);
  std::string cerr;
  if (!decompress(algo, st, b.raw, cerr)) { err = "block at " + std::to_string(off) + ": " + cerr; return false; }
  return decode_block_contents(b, err);
}

inline DFile decode_file(const bytes &img, uint64_t base = 0) {
  DFile f;
  if (img.size() < 512) { f.err = "shorter than a trailer"; return f; }
  const uint8_t *d = (const uint8_t *)img.data();
  const uint8_t *t = d + img.size() - 512;
  f.magic = get_le32(t + 508);
  if (f.magic == MAGIC_V1) f.version = 1;
  else if (f.magic == MAGIC_V2) f.version = 2;
  else { f.err = "bad magic"; return f; }
  for (int i = 0; i < 9; i++) f.f[i] = get_le64(t + 8 * i);
  for (int i = 72; i < 508; i++)
    if (t[i]) f.padding_zero = false;
  uint64_t body = base + img.size() - 512;  // absolute offset of the trailer
  if (f.f[0] >= body || f.f[0] < base) { f.err = "index offset " + std::to_string(f.f[0]) + " outside the file body [" + std::to_string(base) + ", " + std::to_string(body) + ")"; return f; }
  if (!decode_block_at(img, f.f[0], body, f.version, NONE, f.index, f.err, base)) { f.err = "index: " + f.err; return f; }
  for (auto &ie : f.index.entries) {
    uint64_t off;
    size_t c = get_varint((const uint8_t *)ie.val.data(), ie.val.size(), off);
    if (!c || c != ie.val.size()) { f.err = "index value is not exactly one varint"; return f; }
    DBlock b;
    if (!decode_block_at(img, off, f.f[0], f.version, (int)f.f[2], b, f.err, base)) return f;
    f.data.push_back(std::move(b));
  }
  f.first_block_off = f.data.empty() ? f.f[0] : f.data[0].offset;
  return f;
}

// ---------------------------------------------------------------- encoder
struct EEntry {
  bytes key, val;
  int share = -1;  // -1: maximal sharing (LCP); otherwise min(share, LCP) — ignored at restart points
};
struct EBlock {
  std::vector<EEntry> entries;
  std::vector<size_t> restart_at;  // entry indexes that are restart points (0 is always added)
  bytes separator;                 // index key for this block
};
struct EFile {
  int version = 2;
  int algo = NONE;
  int level = 0;
  bytes prefix;
  uint64_t block_size_field = 8192;
  int index_restart_interval = 16;
  int zlib_wbits = 0;  // 0: library default; 9..15: block i declares window 9 + ((zlib_wbits - 9 + 3 i) mod 7), so windows vary between blocks
  std::vector<EBlock> blocks;
};
inline bytes encode_block_contents(const std::vector<EEntry> &es, const std::vector<size_t> &restart_at) {
  bytes o;
  std::set<size_t> rs(restart_at.begin(), restart_at.end());
  rs.insert(0);
  std::vector<uint64_t> roffs;
  bytes prev;
  for (size_t i = 0; i < es.size(); i++) {
    size_t lcp = 0;
    bool restart = rs.count(i) > 0;
    if (restart) roffs.push_back(o.size());
    else {
      while (lcp < prev.size() && lcp < es[i].key.size() && prev[lcp] == es[i].key[lcp]) lcp++;
      if (es[i].share >= 0 && (size_t)es[i].share < lcp) lcp = (size_t)es[i].share;
    }
    put_varint(o, lcp);
    put_varint(o, es[i].key.size() - lcp);
    put_varint(o, es[i].val.size());
    o.append(es[i].key, lcp, bytes::npos);
    o += es[i].val;
    prev = es[i].key;
  }
  if (roffs.empty()) roffs.push_back(0);
  bool r64 = o.size() > 0xFFFFFFFFull;
  for (uint64_t r : roffs) {
    if (r64) put_le64(o, r);
    else put_le32(o, (uint32_t)r);
  }
  put_le32(o, (uint32_t)roffs.size());
  return o;
}
inline void append_framed(bytes &img, int version, const bytes &stored) {
  if (version == 1) put_le32(img, (uint32_t)stored.size());
  else put_varint(img, stored.size());
  put_le32(img, crc32c_ref((const uint8_t *)stored.data(), stored.size()));
  img += stored;
}
inline bytes encode_file(const EFile &f, bool *ok = nullptr) {
  bytes img = f.prefix;
  std::vector<EEntry> idx;
  uint64_t nent = 0, bk = 0, bv = 0, bdata = 0;
  if (ok) *ok = true;
  for (auto &b : f.blocks) {
    uint64_t off = img.size();
    bytes raw = encode_block_contents(b.entries, b.restart_at), stored;
    size_t bi = (size_t)(&b - &f.blocks[0]);
    int wb = f.zlib_wbits ? 9 + (int)(((size_t)(f.zlib_wbits - 9) + 3 * bi) % 7) : 0;
    if (!compress(f.algo, f.level, raw, stored, wb)) {
      if (ok) *ok = false;
      return bytes();
    }
    append_framed(img, f.version, stored);
    bdata += img.size() - off;
    EEntry ie;
    ie.key = b.separator;
    ie.val = varint_bytes(off);
    idx.push_back(ie);
    for (auto &e : b.entries) {
      nent++;
      bk += e.key.size();
      bv += e.val.size();
    }
  }
  uint64_t ioff = img.size();
  std::vector<size_t> ir;
  for (size_t i = 0; i < idx.size(); i += (size_t)std::max(1, f.index_restart_interval)) ir.push_back(i);
  append_framed(img, f.version, encode_block_contents(idx, ir));
  uint64_t ibytes = img.size() - ioff;
  bytes t;
  put_le64(t, ioff);
  put_le64(t, f.block_size_field);
  put_le64(t, (uint64_t)f.algo);
  put_le64(t, nent);
  put_le64(t, f.blocks.size());
  put_le64(t, bdata);
  put_le64(t, ibytes);
  put_le64(t, bk);
  put_le64(t, bv);
  t.resize(508, '\0');
  put_le32(t, f.version == 1 ? MAGIC_V1 : MAGIC_V2);
  img += t;
  return img;
}

}  // namespace ref
}  // namespace vf
