// The four command-line tools of the repository, linked into the harness with `main`
// renamed (built by ./vf with -Dmain=<tool>_main), plus stand-alone executables.
#pragma once
#include "vf.h"
#include <getopt.h>

extern "C" {
int mtbl_dump_main(int, char **);
int mtbl_info_main(int, char **);
int mtbl_verify_main(int, char **);
int mtbl_merge_main(int, char **);
}

namespace vf {

// Calls a linked-in tool main with stdout captured.  Must run inside a forked child (the
// tools call exit() on errors and keep global state).
inline int call_tool_capture(int (*mainfn)(int, char **), const std::vector<std::string> &args, std::string &out,
                             std::string *err = nullptr) {
  fflush(stdout);
  fflush(stderr);
  int saved = dup(1), saved2 = -1;
  int cap = memfd_create("vf-stdout", 0), cap2 = -1;
  dup2(cap, 1);
  if (err) {
    saved2 = dup(2);
    cap2 = memfd_create("vf-stderr", 0);
    dup2(cap2, 2);
  }
  std::vector<char *> argv;
  std::vector<std::string> copy = args;
  for (auto &a : copy) argv.push_back(&a[0]);
  argv.push_back(nullptr);
  optind = 0;  // glibc: full re-initialisation of getopt
  int rc = mainfn((int)copy.size(), argv.data());
  fflush(stdout);
  fflush(stderr);
  dup2(saved, 1);
  close(saved);
  if (err) {
    dup2(saved2, 2);
    close(saved2);
  }
  auto slurp = [](int fd) {
    std::string s;
    off_t sz = lseek(fd, 0, SEEK_END);
    s.resize((size_t)sz);
    size_t off = 0;
    while (off < s.size()) {
      ssize_t n = pread(fd, &s[off], s.size() - off, (off_t)off);
      if (n <= 0) break;
      off += (size_t)n;
    }
    close(fd);
    return s;
  };
  out = slurp(cap);
  if (err) *err = slurp(cap2);
  return rc;
}

// fork+exec of the stand-alone tool binary (directory from $VF_TOOLS_DIR); stdout captured.
// Returns the exit status, or 128+signal.
inline int exec_tool_capture(const std::string &tool, const std::vector<std::string> &args, std::string &out,
                             int /*inherit_fd*/ = -1, std::string *err = nullptr,
                             const std::vector<std::string> &env = {}) {
  const char *dir = getenv("VF_TOOLS_DIR");
  std::string path = std::string(dir ? dir : ".") + "/" + tool;
  int cap = memfd_create("vf-stdout", 0);
  int cap2 = err ? memfd_create("vf-stderr", 0) : -1;
  fflush(stdout);
  fflush(stderr);
  pid_t pid = fork();
  if (pid == 0) {
    dup2(cap, 1);
    if (err) dup2(cap2, 2);
    for (auto &e : env) putenv(strdup(e.c_str()));
    setenv("LC_ALL", "C", 1);
    // the tools are not leak-clean at exit (e.g. mtbl_dump's decoded -k/-v argument); not part of any property
    setenv("ASAN_OPTIONS", "detect_leaks=0:exitcode=66:abort_on_error=0", 1);
    std::vector<char *> argv;
    std::vector<std::string> copy = args;
    for (auto &a : copy) argv.push_back(&a[0]);
    argv.push_back(nullptr);
    execv(path.c_str(), argv.data());
    perror("execv");
    _exit(126);
  }
  int st = 0;
  while (waitpid(pid, &st, 0) < 0 && errno == EINTR) {}
  auto slurp = [](int fd) {
    std::string s;
    off_t sz = lseek(fd, 0, SEEK_END);
    s.resize((size_t)sz);
    size_t off = 0;
    while (off < s.size()) {
      ssize_t n = pread(fd, &s[off], s.size() - off, (off_t)off);
      if (n <= 0) break;
      off += (size_t)n;
    }
    close(fd);
    return s;
  };
  out = slurp(cap);
  if (err) *err = slurp(cap2);
  if (WIFEXITED(st)) return WEXITSTATUS(st);
  if (WIFSIGNALED(st)) return 128 + WTERMSIG(st);
  return 255;
}

}  // namespace vf
