// vsched — a deterministic scheduler for the pthread calls of mtbl/threadpool.c.
// Every managed thread is a real pthread parked on its own semaphore; exactly one holds the
// baton.  At each synchronisation call the running thread updates the model (mutex owner,
// condition wait-set, join target) and asks the choice source which enabled thread runs next.
// No enabled thread while some thread is unfinished = deadlock (decided structurally).
#pragma once
#define VS_NO_RENAME
#include "shims/vs_pthread.h"
#include <semaphore.h>
#include <map>
#include <string>
#include <vector>
#include <cstdio>
#include <cstdlib>
#include <cstring>
#include <unistd.h>

namespace vs {

enum TState { RUNNABLE, BLOCKED_MUTEX, WAITING_COND, JOINING, DONE };
struct Thread {
  int id;
  TState st = RUNNABLE;
  const void *obj = nullptr;   // mutex blocked on / cond waited on
  const void *mtx = nullptr;   // mutex to reacquire after a cond wait
  bool signalled = false;
  int join_target = -1;
  sem_t sem;
  pthread_t real;
  void *(*fn)(void *) = nullptr;
  void *arg = nullptr;
  bool started = false;
};
struct Choice {
  int n;        // number of options at this point
  int picked;   // index picked
  bool preempt_alt;  // picking a non-default option here costs a preemption
  char kind;    // 's' schedule, 'w' which waiter to wake
};

struct Sched {
  std::vector<Thread *> th;
  std::map<const void *, int> mutex_owner;   // -1 free
  std::map<const void *, bool> cond_alive;
  int cur = 0;
  // choice source
  std::vector<int> tape;      // forced prefix (indexes into the option list)
  size_t tape_pos = 0;
  std::vector<Choice> trace;  // what actually happened
  int preemptions = 0, max_preemptions = 1 << 30;
  int spurious = 0, max_spurious = 0;
  long sched_points = 0;
  int max_live = 0;
  // violation reporting
  std::string violation;
  void (*on_violation)(const char *) = nullptr;
  bool active = false;
};
extern Sched *S;
#ifdef VF_MAIN
Sched *S = nullptr;
#endif

inline void violation(const std::string &m) {
  if (S->violation.empty()) S->violation = m;
  if (S->on_violation) S->on_violation(m.c_str());
  // cannot continue a broken execution: the child exits after reporting
  fprintf(stderr, "VSCHED-VIOLATION %s\n", m.c_str());
  _exit(78);
}

inline int live_threads() {
  int n = 0;
  for (auto t : S->th)
    if (t->st != DONE) n++;
  return n;
}

inline bool enabled(const Thread *t, bool allow_spurious) {
  switch (t->st) {
    case RUNNABLE: return true;
    case BLOCKED_MUTEX: {
      auto it = S->mutex_owner.find(t->obj);
      return it == S->mutex_owner.end() || it->second < 0;
    }
    case WAITING_COND: return t->signalled || allow_spurious;
    case JOINING: return S->th[(size_t)t->join_target]->st == DONE;
    default: return false;
  }
}

// consume a choice among n options; def = default (non-preempting) option index
inline int choose(int n, int def, bool preempt_alt, char kind) {
  int pick = def;
  if (n > 1 && S->tape_pos < S->tape.size()) {
    pick = S->tape[S->tape_pos] % n;
    if (pick < 0) pick += n;
  }
  if (n > 1) {
    S->tape_pos++;
    S->trace.push_back({n, pick, preempt_alt, kind});
  }
  return pick;
}

// hand the baton to the next thread; returns when this thread is chosen again (or immediately)
inline void schedule(bool exiting = false) {
  Thread *me = S->th[(size_t)S->cur];
  S->sched_points++;
  int lv = live_threads();
  if (lv > S->max_live) S->max_live = lv;
  for (;;) {
    bool spur_ok = S->spurious < S->max_spurious;
    std::vector<int> opts;
    int def = -1;
    bool me_enabled = !exiting && enabled(me, false);
    // options in a canonical order: current thread first (default = keep running), then by id
    if (me_enabled) opts.push_back(me->id);
    for (auto t : S->th)
      if (t != me && t->st != DONE && enabled(t, false)) opts.push_back(t->id);
    std::vector<int> spur;
    if (spur_ok)
      for (auto t : S->th)
        if (t->st == WAITING_COND && !t->signalled && (t != me || !exiting)) spur.push_back(t->id);
    if (opts.empty() && spur.empty()) {
      bool all_done = true;
      for (auto t : S->th)
        if (t->st != DONE && !(exiting && t == me)) all_done = false;
      if (exiting && all_done) return;  // last thread leaving
      std::string d = "deadlock: no thread can run;";
      for (auto t : S->th) {
        char b[96];
        static const char *nm[] = {"runnable", "blocked-on-mutex", "waiting-on-cond", "joining", "done"};
        snprintf(b, sizeof b, " T%d=%s", t->id, t == me && exiting ? "exiting" : nm[t->st]);
        d += b;
      }
      violation(d);
    }
    def = 0;
    bool can_preempt = S->preemptions < S->max_preemptions;
    std::vector<int> all = opts;
    if (me_enabled && !can_preempt) all.resize(1);  // preemption budget exhausted: keep running
    size_t nsched = all.size();
    for (int s : spur) all.push_back(s);
    int pick = choose((int)all.size(), def, me_enabled, 's');
    int next = all[(size_t)pick];
    if ((size_t)pick >= nsched) {
      S->spurious++;  // spurious wake-up of a waiter: it now competes for its mutex
      Thread *w = S->th[(size_t)next];
      w->signalled = true;
      continue;  // re-evaluate with the waiter now signalled (no baton movement yet)
    }
    if (me_enabled && next != me->id) S->preemptions++;
    Thread *nx = S->th[(size_t)next];
    // a signalled waiter first has to get its mutex back
    if (nx->st == WAITING_COND) {
      nx->st = BLOCKED_MUTEX;
      nx->obj = nx->mtx;
      nx->signalled = false;
      if (!enabled(nx, false)) continue;  // mutex busy: pick again
    }
    if (nx->st == BLOCKED_MUTEX) {
      S->mutex_owner[nx->obj] = nx->id;
      nx->st = RUNNABLE;
    } else if (nx->st == JOINING) {
      nx->st = RUNNABLE;
    }
    if (nx == me) return;
    S->cur = nx->id;
    sem_post(&nx->sem);
    if (exiting) return;
    sem_wait(&me->sem);
    return;
  }
}

inline void begin(const std::vector<int> &tape, int max_preemptions, int max_spurious) {
  S = new Sched();
  S->tape = tape;
  S->max_preemptions = max_preemptions;
  S->max_spurious = max_spurious;
  Thread *t0 = new Thread();
  t0->id = 0;
  t0->started = true;
  sem_init(&t0->sem, 0, 0);
  S->th.push_back(t0);
  S->cur = 0;
  S->active = true;
}
// returns "" or a description of what is wrong at the end of the program
inline std::string end() {
  std::string e;
  for (auto t : S->th)
    if (t->id != 0 && t->st != DONE) e = "thread T" + std::to_string(t->id) + " still alive after every pool and handler was destroyed";
  for (auto &m : S->mutex_owner)
    if (m.second >= 0) e = "a mutex is still held at the end";
  S->active = false;
  return e;
}
inline void dispose() {
  for (auto t : S->th) {
    sem_destroy(&t->sem);
    delete t;
  }
  delete S;
  S = nullptr;
}

}  // namespace vs

#ifdef VF_MAIN
using namespace vs;
extern "C" {
int vs_mutex_init(pthread_mutex_t *m, const pthread_mutexattr_t *) {
  S->mutex_owner[m] = -1;
  return 0;
}
int vs_mutex_destroy(pthread_mutex_t *m) {
  auto it = S->mutex_owner.find(m);
  if (it == S->mutex_owner.end()) violation("pthread_mutex_destroy of a mutex that was never initialised (or destroyed twice)");
  if (it->second >= 0) violation("pthread_mutex_destroy of a mutex held by T" + std::to_string(it->second));
  for (auto t : S->th)
    if (t->st == BLOCKED_MUTEX && t->obj == m) violation("pthread_mutex_destroy of a mutex another thread is blocked on");
  S->mutex_owner.erase(it);
  return 0;
}
int vs_mutex_lock(pthread_mutex_t *m) {
  Thread *me = S->th[(size_t)S->cur];
  if (!S->mutex_owner.count(m)) violation("pthread_mutex_lock on a destroyed or uninitialised mutex");
  if (S->mutex_owner[m] == me->id) violation("pthread_mutex_lock: relock by the owner (self-deadlock)");
  me->st = BLOCKED_MUTEX;
  me->obj = m;
  schedule();
  return 0;
}
int vs_mutex_unlock(pthread_mutex_t *m) {
  Thread *me = S->th[(size_t)S->cur];
  if (!S->mutex_owner.count(m) || S->mutex_owner[m] != me->id) violation("pthread_mutex_unlock by a thread that does not hold the mutex");
  S->mutex_owner[m] = -1;
  me->st = RUNNABLE;
  schedule();
  return 0;
}
int vs_cond_init(pthread_cond_t *c, const pthread_condattr_t *) {
  S->cond_alive[c] = true;
  return 0;
}
int vs_cond_destroy(pthread_cond_t *c) {
  for (auto t : S->th)
    if (t->st == WAITING_COND && t->obj == c) violation("pthread_cond_destroy while T" + std::to_string(t->id) + " is waiting on it");
  S->cond_alive.erase(c);
  return 0;
}
int vs_cond_wait(pthread_cond_t *c, pthread_mutex_t *m) {
  Thread *me = S->th[(size_t)S->cur];
  if (!S->cond_alive.count(c)) violation("pthread_cond_wait on a destroyed condition variable");
  if (!S->mutex_owner.count(m) || S->mutex_owner[m] != me->id) violation("pthread_cond_wait without holding the mutex");
  // A thread can be preempted after it has evaluated its predicate and before pthread_cond_wait has queued it.  Threads that
  // need `m` cannot get in there, but a thread that signals WITHOUT holding `m` can - and its signal is then lost.  So the
  // call is a scheduling point of its own, taken with the mutex still held, before the atomic "release and wait".
  me->st = RUNNABLE;
  schedule();
  S->mutex_owner[m] = -1;
  me->st = WAITING_COND;
  me->obj = c;
  me->mtx = m;
  me->signalled = false;
  schedule();
  return 0;
}
int vs_cond_signal(pthread_cond_t *c) {
  Thread *me = S->th[(size_t)S->cur];
  if (!S->cond_alive.count(c)) violation("pthread_cond_signal on a destroyed condition variable");
  std::vector<Thread *> w;
  for (auto t : S->th)
    if (t->st == WAITING_COND && t->obj == c && !t->signalled) w.push_back(t);
  if (!w.empty()) {
    int k = choose((int)w.size(), 0, false, 'w');
    w[(size_t)k]->signalled = true;
  }
  me->st = RUNNABLE;
  schedule();
  return 0;
}
int vs_cond_broadcast(pthread_cond_t *c) {
  Thread *me = S->th[(size_t)S->cur];
  for (auto t : S->th)
    if (t->st == WAITING_COND && t->obj == c) t->signalled = true;
  me->st = RUNNABLE;
  schedule();
  return 0;
}
// close(2) as called by writer.c / sorter.c / reader.c in the scheduler build.  Two things:
//  * closing a descriptor number that is not open (a double close) is harmless only while nothing else runs: between the two
//    closes another thread can be handed the same number by open/mkstemp/dup, and the second close then pulls it from under
//    that thread.  So EBADF here is a violation of "same result under every interleaving" in its own right;
//  * the call is a scheduling point, so that such a window is also explored.
int vs_close(int fd) {
  int r = close(fd);
  int e = errno;
  if (S) {
    if (r != 0 && e == EBADF)
      violation("close() of descriptor " + std::to_string(fd) + ", which is not open (closed twice): another thread can have been given that number in between");
    Thread *me = S->th[(size_t)S->cur];
    me->st = RUNNABLE;
    schedule();
  }
  errno = e;
  return r;
}
static void *vs_trampoline(void *p) {
  Thread *me = (Thread *)p;
  sem_wait(&me->sem);  // first scheduled
  me->fn(me->arg);
  me->st = DONE;
  schedule(true);
  return nullptr;
}
int vs_create(pthread_t *out, const pthread_attr_t *, void *(*fn)(void *), void *arg) {
  Thread *me = S->th[(size_t)S->cur];
  Thread *t = new Thread();
  t->id = (int)S->th.size();
  t->fn = fn;
  t->arg = arg;
  sem_init(&t->sem, 0, 0);
  S->th.push_back(t);
  pthread_create(&t->real, nullptr, vs_trampoline, t);
  // the handle handed to the library encodes the scheduler's thread id
  memset(out, 0, sizeof *out);
  *out = (pthread_t)(uintptr_t)(t->id + 1000);
  me->st = RUNNABLE;
  schedule();
  return 0;
}
int vs_join(pthread_t h, void **ret) {
  Thread *me = S->th[(size_t)S->cur];
  int id = (int)(uintptr_t)h - 1000;
  if (id <= 0 || id >= (int)S->th.size()) violation("pthread_join of an unknown thread handle");
  if (S->th[(size_t)id]->join_target == -2) violation("pthread_join of a thread that was already joined");
  me->st = JOINING;
  me->join_target = id;
  schedule();
  pthread_join(S->th[(size_t)id]->real, nullptr);
  S->th[(size_t)id]->join_target = -2;
  me->join_target = -1;
  if (ret) *ret = nullptr;
  return 0;
}
}
#endif
