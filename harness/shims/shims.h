/* Harness-owned replacements for the few libc calls through which the environment makes
 * choices for the library.  One library source file each is compiled with the call renamed
 * on the command line (-Dwrite=verif_write etc.); no source change in /repo. */
#ifndef VERIF_SHIMS_H
#define VERIF_SHIMS_H
#include <stddef.h>
#include <stdint.h>
#include <sys/types.h>
#include <time.h>
#ifdef __cplusplus
extern "C" {
#endif

/* ---- mkstemp (sorter.c) ---- */
#define VS_MAX_TEMPLATES 4096
extern volatile int vs_mkstemp_calls;
extern char vs_mkstemp_templates[VS_MAX_TEMPLATES][160];
int verif_mkstemp(char *tmpl);

/* ---- write (writer.c) ---- */
enum { VW_FULL = 0, VW_SHORT = 1, VW_EINTR = 2, VW_ERROR = 3, VW_ZERO = 4,
       VW_DRIBBLE = 5, /* every call in [call, call + arg/1000) accepts only arg%1000 (>= 1) bytes */
       VW_STORM = 6    /* every call in [call, call + arg) is interrupted (EINTR) */ };
struct vw_fault { long call; int kind; long arg; /* SHORT: bytes to write; EINTR: repetitions; ERROR: errno */ };
#define VW_MAX_FAULTS 256
extern struct vw_fault vw_plan[VW_MAX_FAULTS];
extern int vw_nplan;
extern long vw_calls;          /* number of write() calls made by writer.c so far (each EINTR return counts) */
extern long vw_logical;        /* number of logical writes (calls not counting injected EINTR/short continuations) */
extern long vw_sizes[65536];   /* requested size of call i (for the fault-free profile) */
extern int vw_eintr_left;
ssize_t verif_write(int fd, const void *buf, size_t n);
void vw_reset(void);

/* ---- clock_gettime (fileset.c) ---- */
extern struct timespec vc_now;   /* harness-controlled monotonic clock; +1 ns per reading */
extern long vc_reads;
int verif_clock_gettime(clockid_t clk, struct timespec *ts);

/* ---- mmap/munmap (reader.c, C19 only): the "mapping" is an exact-size heap block ---- */
void *verif_mmap(void *addr, size_t len, int prot, int flags, int fd, off_t off);
int verif_munmap(void *addr, size_t len);

#ifdef __cplusplus
}
#endif
#endif
