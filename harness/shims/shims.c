#define _GNU_SOURCE
#include "shims.h"
#include <errno.h>
#include <pthread.h>
#include <stdlib.h>
#include <string.h>
#include <sys/mman.h>
#include <unistd.h>

/* ---- mkstemp ---- */
volatile int vs_mkstemp_calls = 0;
char vs_mkstemp_templates[VS_MAX_TEMPLATES][160];
static pthread_mutex_t vs_mu = PTHREAD_MUTEX_INITIALIZER;
int verif_mkstemp(char *tmpl) {
  pthread_mutex_lock(&vs_mu);
  if (vs_mkstemp_calls < VS_MAX_TEMPLATES) {
    strncpy(vs_mkstemp_templates[vs_mkstemp_calls], tmpl, 159);
    vs_mkstemp_templates[vs_mkstemp_calls][159] = 0;
  }
  vs_mkstemp_calls++;
  pthread_mutex_unlock(&vs_mu);
  return mkstemp(tmpl);
}

/* ---- write ---- */
struct vw_fault vw_plan[VW_MAX_FAULTS];
int vw_nplan = 0;
long vw_calls = 0;
long vw_logical = 0;
long vw_sizes[65536];
int vw_eintr_left = 0;
static int vw_cur_eintr_for = -1;
void vw_reset(void) { vw_nplan = 0; vw_calls = 0; vw_logical = 0; vw_eintr_left = 0; vw_cur_eintr_for = -1; }
/* The plan is indexed by the ordinal of the write() call as seen by the library (vw_calls). */
ssize_t verif_write(int fd, const void *buf, size_t n) {
  long me = vw_calls++;
  if (me < 65536) vw_sizes[me] = (long)n;
  /* single-call outcomes first (a hard error planned inside a dribble / storm range still happens), ranges second */
  for (int i = 0; i < vw_nplan; i++) {
    if (vw_plan[i].kind == VW_DRIBBLE || vw_plan[i].kind == VW_STORM) continue;
    if (vw_plan[i].call != me) continue;
    switch (vw_plan[i].kind) {
    case VW_SHORT: {
      size_t k = (size_t)vw_plan[i].arg;
      if (k >= n) k = n > 1 ? n - 1 : n;
      if (k == 0) k = 1;
      if (k > n) k = n;
      return write(fd, buf, k);
    }
    case VW_EINTR:
      errno = EINTR;
      return -1;
    case VW_ERROR:
      errno = (int)vw_plan[i].arg;
      return -1;
    case VW_ZERO:
      return 0;
    default:
      break;
    }
  }
  for (int i = 0; i < vw_nplan; i++) {
    if (vw_plan[i].kind == VW_DRIBBLE) {
      long cnt = vw_plan[i].arg / 1000, k = vw_plan[i].arg % 1000;
      if (me < vw_plan[i].call || me >= vw_plan[i].call + cnt) continue;
      if (k < 1) k = 1;
      if ((size_t)k > n) k = (long)n;
      return write(fd, buf, (size_t)k);
    }
    if (vw_plan[i].kind == VW_STORM) {
      if (me < vw_plan[i].call || me >= vw_plan[i].call + vw_plan[i].arg) continue;
      errno = EINTR;
      return -1;
    }
  }
  return write(fd, buf, n);
}

/* ---- clock ---- */
struct timespec vc_now = {1000, 0};
long vc_reads = 0;
int verif_clock_gettime(clockid_t clk, struct timespec *ts) {
  vc_reads++;
  vc_now.tv_nsec += 1;
  if (vc_now.tv_nsec >= 1000000000L) { vc_now.tv_nsec -= 1000000000L; vc_now.tv_sec += 1; }
  *ts = vc_now;
  /* the coarse clocks only move once per kernel tick (4 ms here): two reads inside one tick return the same value */
#ifdef CLOCK_MONOTONIC_COARSE
  if (clk == CLOCK_MONOTONIC_COARSE || clk == CLOCK_REALTIME_COARSE) ts->tv_nsec -= ts->tv_nsec % 4000000L;
#else
  (void)clk;
#endif
  return 0;
}

/* ---- mmap ---- */
void *verif_mmap(void *addr, size_t len, int prot, int flags, int fd, off_t off) {
  (void)addr; (void)prot; (void)flags;
  unsigned char *p = malloc(len ? len : 1);
  if (!p) return MAP_FAILED;
  size_t done = 0;
  while (done < len) {
    ssize_t r = pread(fd, p + done, len - done, off + (off_t)done);
    if (r <= 0) break;
    done += (size_t)r;
  }
  if (done < len) memset(p + done, 0, len - done);
  return p;
}
int verif_munmap(void *addr, size_t len) { (void)len; free(addr); return 0; }
