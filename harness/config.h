/* Stand-in for autoconf's config.h (an untracked build product in /repo).
 * Used when the verification harness compiles the library sources directly. */
#ifndef VERIF_CONFIG_H
#define VERIF_CONFIG_H
#ifndef _GNU_SOURCE
#define _GNU_SOURCE 1
#endif
#define HAVE_CLOCK_GETTIME 1
#define HAVE_ENDIAN_H 1
#define HAVE_MADVISE 1
#define HAVE_POSIX_MADVISE 1
#define HAVE_LIBSNAPPY 1
#define HAVE_LIBZ 1
#define PACKAGE_VERSION "verif"
#endif
