"""Per-property configuration for the vf driver (sources, build variant, shims, tiers)."""

TABLE_ASSUME = [
    "library sources compiled directly with clang -O1 + ASan/UBSan (alignment check off), asserts enabled, -DMTBL_VERIF",
    "system zlib/snappy/lz4/zstd are correct",
]

PROPS = {}

PROPS["C01"] = {
    "src": "props/C01.cpp", "tools": True, "tool_bins": True,
    "level": "exploration",
    "rule": ("rapidcheck-generated (table, writer configuration, mtbl_dump filter) cases: adversarial key shapes "
             "(tiny alphabets incl. 00/7f/80/ff, empty key, long shared prefixes, lengths around 127/128 and 16383/16384, "
             "'%08x' keys, random bytes) x value shapes (empty .. larger than a block) x 6 compression types x levels x "
             "block sizes x restart intervals x pools x foreign prefixes. Oracle: reader iteration and parsed `mtbl_dump -x` "
             "output equal the generated sequence / filtered subsequence. A case is non-trivial when the file has >= 2 data "
             "blocks, or an entry length >= 128, or an empty key/value, or a key byte >= 0x80, or a non-default "
             "configuration; distinct = distinct FNV-1a hash of the serialised case."),
    "expect_tags": ["multi_block", "len_ge128", "len_ge16k", "empty_key_or_value", "byte_ge80", "entry_gt_block", "pooled",
                    "foreign_prefix", "explicit_level", "dump_filter_selective", "comp_0", "comp_1", "comp_2", "comp_3",
                    "comp_4", "comp_5"],
    "assumptions": TABLE_ASSUME,
    "tiers": {
        "quick": [{"mode": "rc", "cases": 400, "max_size": 100}],
        "thorough": [{"mode": "rc", "cases": 12000, "max_size": 100}],
    },
}
