"""Per-property configuration for the vf driver (sources, build variant, shims, tiers)."""

TABLE_ASSUME = [
    "library sources compiled directly with clang -O1 + ASan/UBSan (alignment check off), asserts enabled, -DMTBL_VERIF",
    "system zlib/snappy/lz4/zstd are correct",
]

PROPS = {}

PBT = "property-based testing (rapidcheck generators + explicit oracle, fork-isolated cases under ASan/UBSan, text-level shrinking to a replay file)"
TRUST = ("Trusted base: the harness's reference model / independent codec, the system compression libraries, clang's "
         "sanitizers. The library is compiled directly from /repo's working tree with clang (not via autotools), asserts on.")

MANIFEST_META = {
    "hooks": {
        "guard": "MTBL_VERIF",
        "enable": ("the checks compile the library sources of /repo's working tree directly with clang and -DMTBL_VERIF (no "
                   "autotools build); per-file command-line renames (-Dwrite=, -Dmkstemp=, -Dclock_gettime=, -Dmmap=, -Dclose=, pthread "
                   "shim) need no source change"),
        "baseline_off_cmd": "make -C /repo check",
        "source_commits": ["f6a573c"],  # hook commits in /repo (fix: commits are listed in KNOWN_FINDINGS.txt)
        "add_only": True,
    },
    "engines": [
        {"name": "libFuzzer", "path": "clang -fsanitize=fuzzer (fuzz/*.cpp)",
         "kind_free_text": ("coverage-guided fuzzing of structure-aware byte inputs with the semantic oracle inside the target; run by "
                            "./vf as mode 'fuzz' (C19, C15, C11); artifacts are wrapped into case files and replayed by the property binary")},
        {"name": "vsched", "path": "harness/vsched.h",
         "kind_free_text": "deterministic scheduler owning threadpool.c's pthread calls: generated schedules and bounded depth-first enumeration (C13)"},
        {"name": "rapidcheck", "path": "/usr/include/rapidcheck.h",
         "kind_free_text": ("property-based generator (rapidcheck 'gen' combinators used imperatively inside rc::check); failures "
                            "are shrunk by the harness's own text-level delta debugger (harness/vf.h shrink_text) and replayed "
                            "without the library")},
    ],
    "notes": "Driver: ./vf <id> --tier quick|thorough. Design and per-property detail: DESIGN.md. Mutant self-test: ./selftest.",
    "pending_reason": {},
}

PROPS["C01"] = {
    "manifest": {
        "level_text": ("Generated-input search: thousands of (table, configuration) cases per run, each written with the real "
                       "writer and compared element-wise with what the real reader and mtbl_dump -x return. Finds violations; "
                       "does not prove their absence."),
        "level_note": TRUST, "technique": PBT + "; round-trip oracle against a std::map model",
    },
    "src": "props/C01.cpp", "tools": True, "tool_bins": True,
    "level": "exploration",
    "rule": ("rapidcheck-generated (table, writer configuration, mtbl_dump filter) cases: adversarial key shapes "
             "(tiny alphabets incl. 00/7f/80/ff, empty key, long shared prefixes, lengths around 127/128 and 16383/16384, "
             "'%08x' keys, random bytes) x value shapes (empty .. larger than a block) x 6 compression types x levels x "
             "block sizes x restart intervals x pools x foreign prefixes (4% of tables are written behind a sparse hole of 2 GiB-100 .. "
             "4 GiB+4096). Oracle: reader iteration and parsed `mtbl_dump -x` "
             "output (25% of cases: the default quoted output, decoded per the man page) equal the generated sequence / filtered "
             "subsequence. A case is non-trivial when the file has >= 2 data "
             "blocks, or an entry length >= 128, or an empty key/value, or a key byte >= 0x80, or a non-default "
             "configuration; distinct = distinct FNV-1a hash of the serialised case."),
    "expect_tags": ["multi_block", "len_ge128", "len_ge16k", "empty_key_or_value", "byte_ge80", "entry_gt_block", "pooled",
                    "foreign_prefix", "sparse_offset_ge_2GiB", "explicit_level", "dump_filter_selective", "dump_text_mode", "comp_0", "comp_1", "comp_2", "comp_3",
                    "comp_4", "comp_5"],
    "assumptions": TABLE_ASSUME,
    "tiers": {
        "quick": [{"mode": "rc", "cases": 400, "max_size": 100}],
        "thorough": [{"mode": "rc", "cases": 4000, "max_size": 100}],
    },
}

WRITER_TIERS = {
    "quick": [{"mode": "rc", "cases": 400, "max_size": 100}],
    "thorough": [{"mode": "rc", "cases": 6000, "max_size": 100}],
}

C08_TIERS = {"quick": [{"mode": "rc", "cases": 400, "max_size": 100}],
             # hugekey: one fixed scenario with a key of 2^31+1 bytes (several GiB of memory for a few seconds)
             "thorough": [{"mode": "rc", "cases": 6000, "max_size": 100}, {"mode": "hugekey", "workers": 1}]}
PROPS["C08"] = {
    "manifest": {
        "level_text": ("Generated histories of add calls (stateful, model-based): the model predicts accept/refuse for every call "
                       "and the final content; exclusive-create is exercised on generated pre-existing targets. Exploration, not proof."),
        "level_note": TRUST, "technique": PBT + "; model-based history testing (accept/refuse model + content read back two ways)",
    },
    "src": "props/C08.cpp",
    "level": "exploration",
    "rule": ("rapidcheck-generated histories of mtbl_writer_add calls whose keys are derived from the last accepted key "
             "(grow, bump a byte, equal, proper prefix, just below, far smaller, flip across 0x7f/0x80, successor) with values "
             "sized so that a block is cut every few adds; oracle: add succeeds iff first or key > last accepted (unsigned, "
             "prefix first); finished file (reader AND independent decoder) holds exactly the accepted entries; 30% of cases "
             "also call mtbl_writer_init on a pre-existing path (empty file, content, valid table, read-only, directory, "
             "symlink) which must return NULL and leave inode/size/mtime/bytes unchanged. Non-trivial: >= 1 refusal and "
             ">= 2 data blocks in the same history; distinct by FNV-1a of the serialised case."),
    "expect_tags": ["has_refusal", "multi_block", "refusal_right_after_block_cut", "preexisting_target"],
    "assumptions": TABLE_ASSUME,
    "tiers": C08_TIERS,
}
PROPS["C09"] = {
    "manifest": {
        "level_text": ("Translation validation of writer output: every file produced in the run is re-decoded by an independent "
                       "implementation of the format and checked clause by clause against the C09 statement; 'programs' = files "
                       "validated, 'disagreements_checked' = blocks structurally validated. Says nothing about inputs not generated."),
        "level_note": TRUST + " The decoder's reading of the format is cross-checked on the checked-in v1 sample files (C11).",
        "technique": PBT + "; translation validation with an independent format decoder as the oracle",
    },
    "src": "props/C09.cpp",
    "level": "translation_validation",
    "rule": ("every generated writer run (C01's tables x configurations, and C08's add histories; 4% written at a start offset of about "
             "2-4 GiB in a sparse file) is one 'program'; its output "
             "file is decoded by an independent decoder (harness/refcodec.h: own varint/fixed/CRC32C, system compression "
             "libraries) and every clause of the C09 statement is checked: prefix untouched, contiguous blocks, minimal "
             "length varints, CRC field = reference CRC of stored bytes, one index entry per block with value = minimal "
             "varint of the block offset and last_i <= key_i < first_{i+1}, 512-byte zero-padded trailer with magic, restart "
             "array (first 0, strictly increasing, exactly every R entries, shared=0 there, shared=LCP elsewhere, minimal "
             "varints), size rule in both directions, decoded content = accepted entries. Non-trivial: >= 2 data blocks or a "
             "non-default configuration."),
    "expect_tags": ["multi_block", "index_multi_restart", "block_multi_restart", "oversize_single_entry_block",
                    "has_refused_adds", "foreign_prefix", "sparse_offset_ge_2GiB", "pooled", "empty_table"],
    "assumptions": TABLE_ASSUME + ["the independent decoder in harness/refcodec.h implements the documented format"],
    "tiers": WRITER_TIERS,
    "evidence_extra": {
        "programs": lambda t: t["counters"].get("programs", 0),
        "disagreements_checked": lambda t: t["counters"].get("blocks_validated", 0),
    },
}
PROPS["C10"] = {
    "manifest": {
        "level_text": ("Differential check: the ten metadata accessors and mtbl_info's printed numbers against quantities measured on "
                       "the file by an independent decoder, over generated tables/add histories. Exploration, not proof."),
        "level_note": TRUST, "technique": PBT + "; differential oracle (independent decoder measurements vs. trailer statistics)",
    },
    "src": "props/C10.cpp", "tools": True, "tool_bins": True,
    "level": "exploration",
    "rule": ("C01 tables and C08 add histories (refused adds, empty table, foreign prefixes incl. start offsets of 2-4 GiB in a sparse "
             "file, pooled writers); the truth is "
             "measured on the output file by the independent decoder (and cross-checked against the model of accepted adds); "
             "compared with all ten mtbl_metadata_* accessors and with the parsed output of mtbl_info (LC_ALL=C). "
             "Non-trivial: >= 2 data blocks, or refused adds, or a foreign prefix, or a pooled writer, or the empty table."),
    "expect_tags": ["multi_block", "has_refused_adds", "foreign_prefix", "sparse_offset_ge_2GiB", "pooled", "empty_table", "clamped_block_size"],
    "assumptions": TABLE_ASSUME,
    "tiers": WRITER_TIERS,
}

PROPS["C02"] = {
    "manifest": {
        "level_text": ("Generated tables (biased to many blocks) x a query set derived from the file itself: every stored key, "
                       "neighbours/prefixes/extensions of sampled keys, every index separator read by the independent decoder with "
                       "its predecessor and successor, empty and beyond-last keys, and all 144 ordered pairs of a 12-element sample "
                       "as ranges; each of get / get_prefix / get_range is compared with a linear-scan model. Exploration."),
        "level_note": TRUST, "technique": PBT + "; differential oracle against a linear-scan reference table",
    },
    "src": "props/C02.cpp",
    "level": "exploration",
    "rule": ("case = (table, writer configuration, extra literal queries, sampling seed); per case several hundred lookups are "
             "derived from the written file (see level text). Non-trivial case: the file has >= 2 data blocks and at least one "
             "query addresses a block other than the first or falls strictly between a block's last key and its index separator / "
             "between the separator and the next block's first key. distinct_nontrivial counts distinct such cases (FNV-1a of the "
             "serialised case); counters give the number of individual lookups."),
    "expect_tags": ["multi_block", "index_multi_restart_run", "query_between_last_and_separator_or_separator_and_first",
                    "inverted_range", "empty_table", "empty_key_stored"],
    "assumptions": TABLE_ASSUME,
    "tiers": {
        "quick": [{"mode": "rc", "cases": 120, "max_size": 100}],
        "thorough": [{"mode": "rc", "cases": 3000, "max_size": 100}],
    },
}
PROPS["C03"] = {
    "manifest": {
        "level_text": ("Model-based history testing: generated next/seek histories (1-3 interleaved iterators of all four kinds on one "
                       "reader, seek targets chosen relative to the model cursor so that block crossings, backward seeks and seeks to "
                       "the key just returned are frequent) are checked step by step against a cursor model; plus an enumeration of "
                       "ALL (iterator kind, position, target) triples for a deterministic family of small multi-block tables "
                       "(exhaustive for those tables only)."),
        "level_note": TRUST, "technique": PBT + "; stateful model-based testing against a cursor model, plus exhaustive (position,target) enumeration on small tables",
    },
    "src": "props/C03.cpp",
    "level": "exploration",
    "rule": ("mode rc: case = (table, config, 1-3 iterator specs, <= 40 ops); non-trivial when a seek is issued after next() crossed a "
             "block boundary, or a seek goes backwards, or targets the key just returned. mode enum: one case = one table of the "
             "deterministic family (5 restart intervals x 9 sizes x 4 value sizes x 3 key shapes x 5 compression types); inside it every "
             "(9 iterator specs) x (every position incl. exhausted) x (every stored key, its predecessor, successor, empty, beyond-last) "
             "runs p*next; seek(t); next*3 — counter seek_pairs_enumerated; non-trivial when the table has >= 2 blocks."),
    "expect_tags": ["seek_after_next_crossed_block", "backward_seek", "seek_to_key_just_returned", "seek_after_failure",
                    "two_iterators_interleaved", "kind_0", "kind_1", "kind_2", "kind_3", "enum_table"],
    "assumptions": TABLE_ASSUME,
    "tiers": {
        "quick": [{"mode": "rc", "cases": 600, "max_size": 100},
                  {"mode": "enum", "kv": {"tables": 3}, "note": "all (kind, position, target) triples of 48 family tables"}],
        "thorough": [{"mode": "rc", "cases": 10000, "max_size": 100},
                     {"mode": "enum", "kv": {"tables": 170}, "exhaustive": True,
                      "note": "all (kind, position, target) triples of the whole 2700-table family"}],
    },
}

MERGE_DSO = {"VF_MERGE_DSO": {"src": "harness/aux/merge_dso.c", "flags": ["-shared", "-fPIC", "-O1", "-o"], "suffix": ".so"}}

PROPS["C04"] = {
    "manifest": {
        "level_text": ("Generated source families over a tiny key universe (keys collide 2-6 ways; empty key; empty sources; tables and "
                       "user-defined sources that free old buffers on every call) x {no merge function, concatenating merge function, "
                       "merge function failing at call j} x {no dupsort, bytewise, reverse}. Values are unique tokens, so the oracle "
                       "sees whether each source value was folded exactly once. Observed through iteration, mtbl_source_write and the "
                       "mtbl_merge tool with a test DSO. Exploration."),
        "level_note": TRUST, "technique": PBT + "; reference model (sorted union with token-multiset values) and callback-count invariant",
    },
    "src": "props/C04.cpp", "tools": True, "aux": MERGE_DSO,
    "level": "exploration",
    "rule": ("case = (0-6 sources with keys of <= 3 symbols over a 4-symbol alphabet incl. the empty key, merge option, dupsort "
             "option, observation path). Non-trivial: some key occurs in >= 2 sources, or a source is empty, or the empty key is "
             "present. distinct by FNV-1a of the serialised case."),
    "expect_tags": ["key_in_2plus_sources", "fold_depth_3plus", "empty_source", "empty_key", "user_defined_source", "source_yielding_a_key_twice", "merge_0",
                    "merge_1", "merge_2", "merge_callback_failed", "merge_callback_failed_without_storing",
                    "merge_callback_failed_on_later_fold_of_a_key", "dupsort_1", "dupsort_2", "path_1", "path_2", "no_sources"],
    "assumptions": TABLE_ASSUME,
    "tiers": {
        "quick": [{"mode": "rc", "cases": 1500, "max_size": 100}],
        "thorough": [{"mode": "rc", "cases": 10000, "max_size": 100}],
    },
}

PROPS["C05"] = {
    "manifest": {
        "level_text": ("Model-based history testing through mtbl_merger_source: the model is one table holding the merged content "
                       "(values compared as token multisets); next/seek histories on all four iterator kinds (1-3 interleaved "
                       "iterators) and the derived lookup set of C02 are compared step by step. Exploration."),
        "level_note": TRUST, "technique": PBT + "; stateful model-based testing (cursor model over the merged reference table)",
    },
    "src": "props/C05.cpp",
    "level": "exploration",
    "rule": ("case = (source family of C04 with the concatenating merge function — or, in 30% of the cases, NO merge function over sources "
             "whose key sets are disjoint — dupsort option, 1-3 iterator specs, <= 30 ops with "
             "targets relative to the model cursor, optional derived lookup set). Non-trivial: >= 2 sources with different key sets and "
             "a history containing at least one next and one seek."),
    "expect_tags": ["sources_with_different_key_sets", "keys_needing_merge", "seek_to_key_just_returned", "backward_seek",
                    "seek_after_failure", "lookups_through_merger_source", "kind_0", "kind_1", "kind_2", "kind_3", "user_defined_source",
                    "no_merge_function_disjoint_sources", "no_merge_function_duplicates_ordered_by_dupsort", "nested_merger_as_source"],
    "assumptions": TABLE_ASSUME,
    "tiers": {
        "quick": [{"mode": "rc", "cases": 1500, "max_size": 100}],
        "thorough": [{"mode": "rc", "cases": 8000, "max_size": 100}],
    },
}

PROPS["C16"] = {
    "manifest": {
        "level_text": ("Enumeration plus generated search of the codec input space: thorough tier checks ALL 2^32 32-bit values "
                       "(exhaustive for mtbl_varint_encode32/decode32/length/length_packed and decode64/encode64 on that range), "
                       "every 64-bit bit-length boundary +-2 and walking patterns, tens of millions of repetition-free pseudo-random "
                       "64-bit values across all bit lengths, truncated/over-long/unterminated encodings, and the fixed codecs at "
                       "alignments 0..7 in exact-size ASan heap buffers. Quick tier samples the same space."),
        "level_note": TRUST + " Oracle: a two-line shift-and-mask reference encoder for base-128 / little-endian.",
        "technique": "exhaustive enumeration + repetition-free pseudo-random sampling + rapidcheck generation against a bitwise reference codec (differential oracle), in-process under ASan/UBSan",
    },
    "src": "props/C16.cpp",
    "level": "exploration",
    "rule": ("one evaluation = one (codec, value[, alignment]) checked against the reference encoder in both directions, incl. byte "
             "count = mtbl_varint_length = mtbl_varint_length_packed and truncation behaviour. Non-trivial = value >= 128 (multi-byte "
             "encoding). Enumerated and bijection-sampled values are distinct by construction (counter bulk_distinct_nontrivial, added to "
             "distinct_nontrivial); rapidcheck-generated cases are de-duplicated by hash."),
    "assumptions": ["library compiled with clang -O1 + ASan/UBSan; x86-64 little-endian host (the big-endian branch of my_byteorder.h is not exercised)"],
    "tiers": {
        "quick": [{"mode": "bounds", "workers": 1, "exhaustive": False}, {"mode": "sample", "kv": {"count": 1500000}}, {"mode": "rc", "cases": 3000, "workers": 4}],
        "thorough": [{"mode": "bounds", "workers": 1}, {"mode": "sample", "kv": {"count": 20000000}},
                     {"mode": "all32", "exhaustive": True, "note": "all 2^32 values of the 32-bit varint codec"},
                     {"mode": "rc", "cases": 50000, "workers": 4}],
    },
}

PROPS["C17"] = {
    "manifest": {
        "level_text": ("Differential check of mtbl_crc32c, my_crc32c_sse42 and my_crc32c_slicing (all three called on every buffer, "
                       "regardless of which one the host CPU selects) against a bit-at-a-time CRC-32C reference that is itself checked "
                       "against the RFC 3720 B.4 vectors: every length 0..1100 x alignment 0..7, all 256 values of every byte position of "
                       "buffers of length 1..40 x alignment 0..7, random megabyte buffers, rapidcheck-generated buffers. Buffers end "
                       "exactly at the end of an ASan heap block."),
        "level_note": TRUST + " The SSE4.2 path can only run on a CPU that has SSE4.2 (present here; otherwise the run records class sse42_unavailable_skipped).",
        "technique": "enumeration + rapidcheck generation against a bitwise reference CRC (differential oracle), in-process under ASan/UBSan",
    },
    "src": "props/C17.cpp",
    "level": "exploration",
    "rule": ("one evaluation = one (buffer, alignment) on which all three entry points are compared with the reference. All "
             "enumerated evaluations are distinct by construction and count as non-trivial when the buffer is non-empty "
             "(bulk_distinct_nontrivial); rapidcheck cases are de-duplicated by hash."),
    "assumptions": ["x86-64 host with SSE4.2 for the hardware path"],
    "tiers": {
        "quick": [{"mode": "vectors", "workers": 1}, {"mode": "lens", "kv": {"reps": 2}}, {"mode": "bytes", "kv": {"lmax": 40}},
                  {"mode": "big", "kv": {"maxlen": 1048576, "count": 3}}, {"mode": "mt", "workers": 4, "kv": {"count": 4000}},
                  {"mode": "rc", "cases": 1500, "workers": 8}],
        "thorough": [{"mode": "vectors", "workers": 1}, {"mode": "lens", "kv": {"reps": 40}}, {"mode": "bytes", "kv": {"lmax": 200}},
                     {"mode": "big", "kv": {"maxlen": 16777216, "count": 12}},
                     {"mode": "huge", "workers": 3, "note": "three buffers of 2^32 .. 2^32+1100 bytes"}, {"mode": "mt", "workers": 4, "kv": {"count": 100000}},
                     {"mode": "rc", "cases": 30000, "workers": 8}],
    },
}

PROPS["C15"] = {
    "manifest": {
        "also_engines": ["libFuzzer"],
        "level_text": ("Round-trip oracle over (algorithm, entry point, level, buffer): an exhaustive sweep of every length 0..64 (0..300 in "
                       "the thorough tier) x 4 contents x 5 algorithms x {mtbl_compress, mtbl_compress_level at 16 levels from INT_MIN to "
                       "INT_MAX}, then rapidcheck-generated structured buffers (runs, repeats, random islands) up to 4 MiB; an abort of "
                       "the process is a failure (cases run in forked children). Algorithm names: to_str/from_str identity, case mixes, "
                       "generated near-misses refused. Exploration."),
        "level_note": TRUST + " mtbl_decompress is only ever given what mtbl_compress* returned (decompressing garbage is outside the property).",
        "technique": PBT + "; round-trip oracle; exhaustive small-length enumeration",
    },
    "src": "props/C15.cpp",
    "level": "exploration",
    "rule": ("mode small: each (algorithm, entry point, level) x every length 0..maxlen x {zeros, ramp, LCG-random, period-3} is one "
             "round trip (distinct by construction, counter small_roundtrips). mode rc: case = (algorithm incl. NONE/unknown values, entry "
             "point, level, 0-3 buffer segments) or an algorithm-name check; non-trivial = a real algorithm (1..5) or a name check; "
             "distinct by FNV-1a of the serialised case."),
    "expect_tags": ["algo_snappy", "algo_zlib", "algo_lz4", "algo_lz4hc", "algo_zstd", "not_an_algorithm", "len_le16", "empty_buffer",
                    "len_ge1MiB", "len_gt16MiB", "compress_level", "level_out_of_range", "known_name", "unknown_name"],
    "assumptions": ["system zlib/snappy/lz4/zstd are correct"],
    "tiers": {
        "quick": [{"mode": "small", "kv": {"maxlen": 64}}, {"mode": "big", "workers": 5, "kv": {"sizes": 1}}, {"mode": "rc", "cases": 1200, "max_size": 100},
                  {"mode": "fuzz", "target": "fuzz/fuzz_compress.cpp", "seeds": "bytes", "runs": 40000, "max_len": 8192, "workers": 8,
                   "note": "libFuzzer: bytes -> (algorithm, entry point, level, buffer), round-trip oracle inside the target"}],
        "thorough": [{"mode": "small", "kv": {"maxlen": 300}}, {"mode": "big", "workers": 5, "kv": {"sizes": 2}}, {"mode": "rc", "cases": 6000, "max_size": 100},
                     {"mode": "fuzz", "target": "fuzz/fuzz_compress.cpp", "seeds": "bytes", "runs": 300000, "max_len": 65536, "workers": 12,
                      "note": "libFuzzer, seeded corpus"},
                     {"mode": "fuzz", "target": "fuzz/fuzz_compress.cpp", "runs": 300000, "max_len": 65536, "workers": 4, "value_profile": 1,
                      "note": "libFuzzer, empty corpus, value profile"}],
    },
}

PROPS["C06"] = {
    "manifest": {
        "level_text": ("Generated add sequences (duplicates within and across chunks, sorted/reverse/all-equal patterns, empty key, empty "
                       "input) x memory limits from one entry per chunk to everything in memory x pools 0..8 x {mtbl_sorter_iter, "
                       "mtbl_sorter_write}. Oracle: merged model over the multiset of adds (token multisets), callback count, refusal of "
                       "add/write after iteration began, spill templates under the configured directory (mkstemp shim), spill no later than "
                       "the documented limit (un-pooled), temp directory empty. Exploration."),
        "level_note": TRUST + " Needs the MTBL_VERIF hook (MIN_SORTER_MEMORY lowered) so that multi-chunk sorts are reachable; sorter.c is compiled with -Dmkstemp=verif_mkstemp.",
        "technique": PBT + "; reference model of the sorted/merged multiset, libc-call shim (mkstemp) as observation point",
    },
    "src": "props/C06.cpp", "extra_src": ["harness/shims/shims.c"], "shims": ["sorter.mkshim"],
    "level": "exploration",
    "rule": ("case = (sequence of added keys over a tiny universe, max_memory, pool size, consumer, merge option). Non-trivial: the "
             "sort spilled >= 2 chunks and some key was added more than once. Distinct by FNV-1a of the serialised case."),
    "expect_tags": ["multi_chunk", "chunks_ge8", "duplicate_keys", "pooled", "sorter_write", "empty_input", "empty_key",
                    "no_merge_function", "one_entry_per_chunk"],
    "assumptions": TABLE_ASSUME,
    "tiers": {
        "quick": [{"mode": "rc", "cases": 1000, "max_size": 100}],
        "thorough": [{"mode": "rc", "cases": 8000, "max_size": 100}],
    },
}

PROPS["C19"] = {
    "manifest": {
        "also_engines": ["libFuzzer"],
        "level_text": ("reader.c is compiled with mmap/munmap renamed so that the file 'mapping' is an exact-size ASan heap block: any access "
                       "one byte outside the file is a sanitizer report (a real mapping hides over-reads up to the page end). Enumerator: "
                       "for 12 base files (writer- and independent-encoder-made, v1 and v2, with/without foreign prefix, empty table, "
                       "single- and multi-block, 5 algorithms) EVERY truncation length, every index_block_offset / index length prefix / "
                       "index num_restarts value in 0..size+600 plus 32/64-bit boundary values, each magic variant, each with and without "
                       "verify_checksums (exhaustive per base file and field in the thorough tier); plus rapidcheck-generated multi-field "
                       "mutations, byte patches and raw random files. Accepts NULL, a reader, or an assertion stop; rejects sanitizer "
                       "reports and signals."),
        "level_note": TRUST + " Only mtbl_reader_init/_init_fd are judged (the returned reader is destroyed, not iterated).",
        "technique": "fault/field-mutation enumeration + " + PBT + "; memory-safety oracle (ASan on an exact-size heap 'mapping')",
    },
    "src": "props/C19.cpp", "extra_src": ["harness/shims/shims.c"], "shims": ["reader.mmshim"],
    "level": "exploration",
    "rule": ("mode enum: one work item = (base file, field, verify flag) with every value of the field opened in turn (counter "
             "enumerated_opens); non-trivial opens are those whose input passes the size and magic gate. mode rc: case = base file + "
             "1-3 field/byte mutations, or a raw generated file; non-trivial = passes the size and magic gate; distinct by FNV-1a."),
    "expect_tags": ["returned_NULL", "returned_reader", "assertion_stop", "passes_size_and_magic_gate", "verify_checksums",
                    "mut_0", "mut_1", "mut_2", "mut_3", "mut_4", "mut_5", "mut_6"],
    "assumptions": ["the heap-backed mapping behaves like a private read-only mapping of the same bytes"],
    "tiers": {
        "quick": [{"mode": "enum", "kv": {"full": 0}, "note": "bases 0,1 and a third of the others"}, {"mode": "rc", "cases": 1500, "max_size": 100},
                  {"mode": "fuzz", "target": "fuzz/fuzz_open.cpp", "seeds": "c19", "runs": 60000, "max_len": 2048, "workers": 8,
                   "note": "libFuzzer, structure-aware input (base selector + field mutations | raw file), seeded corpus"}],
        "thorough": [{"mode": "enum", "kv": {"full": 1}, "exhaustive": True, "note": "all 12 base files x 5 fields x verify on/off"},
                     {"mode": "rc", "cases": 15000, "max_size": 100},
                     {"mode": "fuzz", "target": "fuzz/fuzz_open.cpp", "seeds": "c19", "runs": 400000, "max_len": 4096, "workers": 12,
                      "note": "libFuzzer, seeded corpus"},
                     {"mode": "fuzz", "target": "fuzz/fuzz_open.cpp", "runs": 400000, "max_len": 4096, "workers": 4, "value_profile": 1,
                      "note": "libFuzzer, empty corpus, value profile"}],
    },
}

PROPS["C20"] = {
    "manifest": {
        "level_text": ("Fault enumeration on write(2): writer.c is compiled with write renamed to a shim that follows a fault plan. For small "
                       "tables (2-4 blocks, every algorithm, pooled and not, with/without foreign prefix) EVERY write call of the fault-free "
                       "run is hit with every short length (all lengths when the call writes <= 64 bytes, else 16 sampled incl. 1 and "
                       "len-1) and with 1/2/5 consecutive EINTRs, and the output must be byte-identical; a hard error (EIO at every call; "
                       "ENOSPC/EBADF/zero-return at a third each) must stop the process abnormally with a message before the API call "
                       "returns. Random multi-fault plans on generated tables beyond that."),
        "level_note": TRUST + " The shim forwards to the real write(2) on a memfd; how the process stops on a hard error is not prescribed (assert today), only that it does not return normally or exit 0.",
        "technique": "fault injection/enumeration through a libc-call shim + " + PBT + " (byte-identity oracle against the fault-free run)",
    },
    "src": "props/C20.cpp", "extra_src": ["harness/shims/shims.c"], "shims": ["writer.wshim"],
    "level": "fault_enumeration",
    "rule": ("mode single: per table every (write call, short length) and (write call, EINTR run) is one evaluation (distinct by "
             "construction, counter single_soft_faults), every (call, hard error) one forked case. mode rc: case = (table, config, plan of "
             "1-5 faults at generated call ordinals); non-trivial = at least one planned fault was actually reached (hard: reached and the "
             "process stopped). Distinct by FNV-1a."),
    "expect_tags": ["fault_reached", "multi_fault", "short_write", "eintr", "hard_error_reached", "pooled"],
    "assumptions": TABLE_ASSUME,
    "tiers": {
        "quick": [{"mode": "single", "kv": {"tables": 1}}, {"mode": "rc", "cases": 500, "max_size": 100}],
        "thorough": [{"mode": "single", "kv": {"tables": 4}, "exhaustive": True, "note": "all 54 small-table configurations (64 worker slots)"},
                     {"mode": "rc", "cases": 15000, "max_size": 100}],
    },
}

PROPS["C12"] = {
    "manifest": {
        "level_text": ("Fault enumeration on stored bytes: generated tables (all algorithms, 1-6+ blocks) x corruptions CRC-32C is guaranteed to "
                       "detect (1, 2 or 3 bit flips; bursts of 2..32 bits with both end bits set) aimed at any data block or the index "
                       "block, inside the checksum field or the stored payload. Observed in forked children: iteration with "
                       "verify_checksums may return only the entries of the blocks before the damaged one and must then stop abnormally; "
                       "mtbl_source_get of a key in the damaged block returns nothing; an iterator (iter / get_range / get_prefix) first positioned beyond the damaged block and then seeked back into it returns nothing from it and stops; mtbl_verify (linked-in main, and the real binary on a "
                       "sample) must not print OK / exit 0; the intact file verifies and reads completely. Thorough tier additionally flips "
                       "EVERY single bit of every block of three small files (exhaustive)."),
        "level_note": TRUST + " Only patterns within the CRC's guaranteed detection class are injected, and never the length prefix.",
        "technique": "fault injection/enumeration (bit flips within CRC-32C's guaranteed detection class) + " + PBT,
    },
    "src": "props/C12.cpp", "tools": True, "tool_bins": True,
    "level": "fault_enumeration",
    "rule": ("mode rc: case = (table, config, target block, flip pattern); every case is non-trivial (a damaged block must be refused on "
             "three observation paths). mode allbits: each single-bit flip of the checksum+payload region of every block of three fixed "
             "files is one evaluation (distinct by construction; the quick tier takes every 16th bit)."),
    "expect_tags": ["index_block_damaged", "last_data_block_damaged", "data_block_damaged", "burst", "flips_1", "flips_2", "flips_3",
                    "multi_block", "intact_checked", "seek_back_into_damaged_block"],
    "assumptions": TABLE_ASSUME,
    "tiers": {
        "quick": [{"mode": "allbits", "kv": {"files": 3, "stride": 16}}, {"mode": "rc", "cases": 250, "max_size": 100}],
        "thorough": [{"mode": "allbits", "kv": {"files": 3, "stride": 1}, "exhaustive": True, "note": "every single-bit flip of every block of 3 files"},
                     {"mode": "rc", "cases": 6000, "max_size": 100}],
    },
}

PROPS["C11"] = {
    "manifest": {
        "also_engines": ["libFuzzer"],
        "level_text": ("Files are built by an independent encoder from generated logical content AND generated encoding choices (format v1 or "
                       "v2; block partition from single-entry blocks to one big block; restart points at every entry / only the first / "
                       "every k / irregular; sharing maximal, none or any amount <= LCP; index separators at the last key, beyond it, "
                       "just below the next block's first key, or shortened; index restart interval; six algorithms through the system "
                       "libraries; foreign prefix). The real reader must return exactly the encoded entries for full iteration, the "
                       "derived lookup set of C02 and generated next/seek histories of C03. The checked-in sample files are read by both "
                       "implementations as a cross-check of the decoder. Exploration."),
        "level_note": TRUST + " Blocks above 4 GiB (64-bit restart arrays) are covered at the block-API level by the thorough tier only (mode big4g).",
        "technique": PBT + "; differential testing against an independent encoder with generated encoding choices",
    },
    "src": "props/C11.cpp",
    "level": "exploration",
    "rule": ("case = (logical entries, format version, algorithm, per-block encoding choices, iterator specs, ops). Non-trivial: a v1 "
             "file, or non-maximal sharing, or restart points not at every entry, or a separator different from the block's last key "
             "(i.e. an encoding today's writer would not produce). Distinct by FNV-1a."),
    "expect_tags": ["format_v1", "format_v2", "multi_block", "non_maximal_sharing", "restarts_not_every_entry",
                    "separator_not_last_key", "single_entry_block", "foreign_prefix", "sample_v1", "stored_block_ge64KiB"],
    "assumptions": TABLE_ASSUME,
    "tiers": {
        "quick": [{"mode": "samples", "workers": 1}, {"mode": "rc", "cases": 200, "max_size": 100},
                  {"mode": "fuzz", "target": "fuzz/fuzz_encoding.cpp", "seeds": "bytes", "runs": 4000, "max_len": 600, "workers": 8,
                   "note": "libFuzzer: the input bytes are the encoding choices of the independent encoder"}],
        "thorough": [{"mode": "samples", "workers": 1}, {"mode": "rc", "cases": 3000, "max_size": 100},
                     {"mode": "fuzz", "target": "fuzz/fuzz_encoding.cpp", "seeds": "bytes", "runs": 60000, "max_len": 2048, "workers": 12,
                      "note": "libFuzzer, seeded corpus"},
                     {"mode": "fuzz", "target": "fuzz/fuzz_encoding.cpp", "runs": 60000, "max_len": 2048, "workers": 4, "value_profile": 1,
                      "note": "libFuzzer, empty corpus, value profile"},
                     {"mode": "big4g", "workers": 1, "kv": {"shapes": 1},
                      "note": "block_builder -> block_init/block_iter round trip of a block above 4 GiB (64-bit restart array), shape drawn from the seed"}],
    },
}

PROPS["C18"] = {
    "manifest": {
        "level_text": ("Generated API histories composed of scenarios (writer/reader/iterators incl. non-tables; mergers over tables and "
                       "user sources with a possibly failing merge callback; sorters with 1..n chunks, pooled or not, destroyed before / "
                       "during / after iteration or written out, with a failing merge callback when un-pooled; filesets with dup handles, "
                       "missing and non-table entries, several rounds of setfile changes and reload_now; pools shared by several writers; half "
                       "of the tables use large blocks of highly compressible values so that decompression has to grow its buffers), every object destroyed at a "
                       "generated point of its life cycle. Each history runs in a forked child; after a warm-up the set of open "
                       "descriptors, the table/temp-file mappings, the thread count, the temp-directory listing, LeakSanitizer and the "
                       "allocator's byte count are compared before and after. Exploration."),
        "level_note": TRUST + " LeakSanitizer sees unreachable allocations only; reachable-but-forgotten memory is caught by the allocator byte count (with an allowance for the harness's own bookkeeping).",
        "technique": PBT + "; stateful history generation with a resource-census invariant (/proc/self/fd, /proc/self/maps, LeakSanitizer, allocator statistics)",
    },
    "src": "props/C18.cpp", "extra_src": ["harness/shims/shims.c"], "shims": ["sorter.mkshim"],
    "env": {"ASAN_OPTIONS": "detect_leaks=1:leak_check_at_exit=0:exitcode=66:abort_on_error=0:allocator_may_return_null=1:handle_abort=0:detect_stack_use_after_return=0:quarantine_size_mb=32"},
    "level": "exploration",
    "rule": ("case = 1-4 scenarios with numeric parameters (sizes, pool, destroy points, failure injection). Non-trivial: a sorter "
             "with >= 2 chunks, or an iterator destroyed before exhaustion, or a call that reported failure. Distinct by FNV-1a."),
    "expect_tags": ["scn_rw", "scn_merge", "scn_sort", "scn_fileset", "scn_pool", "sorter_multi_chunk", "pooled_sorter",
                    "pooled_sorter_destroyed_with_jobs_in_flight", "iterator_abandoned_before_drained", "call_reported_failure",
                    "merge_callback_failed", "fileset_dup", "fileset_reloaded", "fileset_multi_reload", "writers_sharing_a_pool"],
    "assumptions": TABLE_ASSUME,
    "tiers": {
        "quick": [{"mode": "rc", "cases": 600, "max_size": 100}],
        "thorough": [{"mode": "rc", "cases": 5000, "max_size": 100}],
    },
}

PROPS["C07"] = {
    "manifest": {
        "level_text": ("Stateful, model-based testing of filesets: generated interleavings of setfile rewrites (in place / by rename, relative "
                       "and absolute lines, names of tables, of a non-table and of a missing file), removal and restoration of table files, clock advances (harness-owned monotonic "
                       "clock), reload / reload_now, dup with other filters / intervals, open / advance / close iterators of every kind, "
                       "complete reads and handle destruction. A tolerant model tracks which setfile versions a correct implementation may "
                       "have loaded (reloads that are permitted but not required widen the set, every observation narrows it; an empty set "
                       "is the violation); while any iterator is open all observations must agree on one version. ASan covers dangling "
                       "readers. Exploration."),
        "level_note": TRUST + " Generators respect what real callers provide: no duplicate names in a setfile version, strictly increasing setfile mtimes, iterators destroyed before their handle, a strictly increasing clock. mtbl_fileset_partition (deprecated) is not driven.",
        "technique": PBT + "; stateful model-based testing with a candidate-set (tolerant) model and a harness-owned clock (clock_gettime shim)",
    },
    "src": "props/C07.cpp", "extra_src": ["harness/shims/shims.c"], "shims": ["fileset.clkshim"],
    "level": "exploration",
    "rule": ("case = (initial setfile, interval of the first handle, <= ~40 ops). Non-trivial: the history contains a setfile change "
             "followed by a forced reload through one handle and a read through another handle, or an iterator held open across a "
             "reload_now. Distinct by FNV-1a."),
    "expect_tags": ["dup", "setfile_rewritten", "table_file_removed_or_restored", "change_then_reload_via_one_handle_then_read_via_another",
                    "iterator_open_across_reload_now", "handle_destroyed_midway"],
    "assumptions": TABLE_ASSUME,
    "tiers": {
        "quick": [{"mode": "rc", "cases": 1500, "max_size": 100}],
        "thorough": [{"mode": "rc", "cases": 15000, "max_size": 100}],
    },
}

PROPS["C13"] = {
    "manifest": {
        "also_engines": ["vsched"],
        "level_text": ("The harness owns the schedule: mtbl/threadpool.c is compiled with its eleven pthread calls routed to a deterministic "
                       "scheduler (harness/vsched.h) in which every thread is a real pthread parked on a semaphore and exactly one runs; at "
                       "every synchronisation call - and additionally between a thread's predicate check and the atomic release-and-wait of pthread_cond_wait, and at every close(2) made by writer.c / sorter.c / reader.c (where EBADF, i.e. a double close, is a violation of its own) - the choice source decides who runs next and which waiter a signal wakes; spurious "
                       "wake-ups can be injected; 'no enabled thread' is reported as deadlock structurally. Programs: the raw pool API (1-2 "
                       "caller threads with their own result handlers sharing a pool, ordered and unordered jobs), a real pooled writer "
                       "(output must be byte-identical to the un-pooled writer's), two pooled writers sharing one pool from two caller "
                       "threads, a real pooled sorter (drained, abandoned, or destroyed "
                       "with jobs in flight). Choice sources: rapidcheck-generated tapes, and depth-first enumeration of ALL schedules "
                       "within a preemption bound for the small-program family."),
        "level_note": TRUST + " Preemption happens only at synchronisation calls (data races between two calls are C14's subject); beyond the preemption bound the search is random.",
        "technique": "systematic schedule exploration with a harness-owned deterministic scheduler (stateless model checking style DFS with a preemption bound) + rapidcheck-generated schedules; oracle: result log / byte identity / model + structural deadlock detection",
    },
    "src": "props/C13.cpp", "extra_src": ["harness/shims/shims.c"], "shims": ["threadpool.sched", "sorter.mkclose", "writer.vsclose", "reader.vsclose"],
    "level": "exploration",
    "rule": ("mode rc: case = (program, pool size, jobs/blocks/chunks, ordered?, callers, spurious budget, choice tape); non-trivial when "
             "the execution contained at least one preemption or allowed spurious wake-ups. mode dfs: one case = one member of the "
             "small-program family (pool size 1-2, 0-3 jobs/blocks/chunks, ordered/unordered, 1-2 callers); every schedule with at most "
             "`bound` preemptions is executed (counter schedules_explored; distinct by construction); class dfs_complete marks members "
             "whose bounded schedule space was exhausted, dfs_capped those stopped at the execution cap."),
    "expect_tags": ["prog_1", "prog_2", "prog_3", "prog_4", "preempted", "preemptions_ge3", "two_callers_sharing_pool", "unordered",
                    "pool_saturated", "spurious_wakeups_allowed", "dfs_complete"],
    "assumptions": ["programs under test are deterministic given the schedule (pure job callbacks, deterministic compression)"],
    "tiers": {
        "quick": [{"mode": "dfs", "kv": {"bound": 1, "cap": 4000, "members": 2}, "note": "all schedules with <= 1 preemption for 32 family members"},
                  {"mode": "rc", "cases": 400, "max_size": 100}],
        "thorough": [{"mode": "dfs", "kv": {"bound": 2, "cap": 60000, "members": 10}, "note": "all schedules with <= 2 preemptions for the whole family"},
                     {"mode": "rc", "cases": 6000, "max_size": 100}],
    },
}

PROPS["C14"] = {
    "manifest": {
        "level_text": ("Dynamic race detection: the library and the harness are built with ThreadSanitizer; generated workloads run the "
                       "concurrent uses the API allows on real threads — 1-3 pooled writers sharing one pool from separate caller threads "
                       "(1-600 block jobs each), a pooled sorter with 1-12 chunks, 2-8 threads running their own next/seek histories and "
                       "lookups on one shared reader, and all of these at once. Any ThreadSanitizer report (halt_on_error, exit 66) or "
                       "wrong result is a violation. This is the weakest claim of the suite: a race is seen only if both accesses are "
                       "executed in the run (TSan's happens-before analysis does not need them to collide in time)."),
        "level_note": TRUST + " ThreadSanitizer's happens-before model; rapidcheck itself is not instrumented (single-threaded use). Race reports are not shrunk; the replay is the workload.",
        "technique": "generated concurrent workloads under ThreadSanitizer (dynamic happens-before race detection) with result oracles",
    },
    "src": "props/C14.cpp", "variant": "tsan", "report_unreproduced": True,
    "level": "exploration",
    "rule": ("case = workload parameters (kind, pool size, writers, blocks, chunks, reader threads, compression, seed). Every case is "
             "non-trivial (>= 2 threads touch shared library state). Distinct by FNV-1a of the parameters."),
    "expect_tags": ["kind_0", "kind_1", "kind_2", "kind_3", "writers_sharing_one_pool", "more_jobs_than_pool_threads", "threads_on_shared_reader"],
    "assumptions": ["a data race is observable only when both conflicting accesses are executed in the run"],
    "tiers": {
        "quick": [{"mode": "rc", "cases": 150, "max_size": 100, "workers": 8, "kv": {"shrink-budget": 0, "timeout": 120}}],
        "thorough": [{"mode": "rc", "cases": 1500, "max_size": 100, "workers": 8, "kv": {"shrink-budget": 0, "timeout": 120}}],
    },
}
