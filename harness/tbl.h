// Table-level helpers shared by the table family of properties: adversarial key/value
// generators, writer configurations, writing/reading through the real API, reference model.
#pragma once
#include "vf.h"

namespace vf {

typedef std::pair<bytes, bytes> KV;
typedef std::vector<KV> KVs;

// ---------------------------------------------------------------- symbolic entries
struct SEntry {
  BStr k, v;
};

// ---------------------------------------------------------------- writer configuration
struct WConfig {
  int comp = 2;            // mtbl_compression_type
  bool level_set = false;  // mtbl_writer_options_set_compression_level called?
  int level = 0;
  long long block_size = 8192;  // as passed to the setter (setter clamps to >= 1024)
  bool block_size_set = true;
  int restart = 16;
  int pool = -1;  // -1: no pool; 0: mtbl_threadpool_init(0); n>0: n threads
  int prefix_len = 0;  // foreign bytes already in the file before the table
  uint32_t prefix_seed = 0;
  bool madvise = false;
  bool by_path = false;  // mtbl_writer_init(path) instead of _init_fd(memfd)
  bool null_opts = false;  // pass NULL writer options (all defaults)
  unsigned long long sparse_off = 0;  // when > 0: the writer starts at this offset of a sparse file (the hole stands for foreign bytes)

  size_t eff_block_size() const {
    if (null_opts || !block_size_set) return 8192;
    return block_size < 1024 ? 1024 : (size_t)block_size;
  }
  int eff_restart() const { return null_opts ? 16 : restart; }
  int eff_comp() const { return null_opts ? 2 : comp; }
  bool nondefault() const {
    return !null_opts && (comp != 2 || level_set || eff_block_size() != 8192 || restart != 16 || pool >= 0 || prefix_len || madvise || sparse_off);
  }
  std::string ser() const {
    Out o;
    o << "config comp=" << comp << " level_set=" << level_set << " level=" << level << " block_size=" << block_size
      << " block_size_set=" << block_size_set << " restart=" << restart << " pool=" << pool << " prefix_len=" << prefix_len
      << " prefix_seed=" << prefix_seed << " madvise=" << madvise << " by_path=" << by_path << " null_opts=" << null_opts;
    if (sparse_off) o << " sparse_off=" << sparse_off;
    return o.str();
  }
  static WConfig parse(const std::vector<std::string> &row) {
    WConfig c;
    for (size_t i = 1; i < row.size(); i++) {
      size_t e = row[i].find('=');
      if (e == std::string::npos) continue;
      std::string k = row[i].substr(0, e), v = row[i].substr(e + 1);
      long long n = toll(v);
      if (k == "comp") c.comp = (int)n;
      else if (k == "level_set") c.level_set = n;
      else if (k == "level") c.level = (int)n;
      else if (k == "block_size") c.block_size = n;
      else if (k == "block_size_set") c.block_size_set = n;
      else if (k == "restart") c.restart = (int)n;
      else if (k == "pool") c.pool = (int)n;
      else if (k == "prefix_len") c.prefix_len = (int)n;
      else if (k == "prefix_seed") c.prefix_seed = (uint32_t)n;
      else if (k == "madvise") c.madvise = n;
      else if (k == "by_path") c.by_path = n;
      else if (k == "null_opts") c.null_opts = n;
      else if (k == "sparse_off") c.sparse_off = toull(v);
    }
    return c;
  }
  bytes prefix_bytes() const {
    BStr b;
    b.glen = (uint32_t)prefix_len;
    b.gseed = prefix_seed;
    return b.expand();
  }
};

inline int gen_level() {
  switch (weighted({20, 60, 20})) {
    case 0: return one_of<int>({INT_MIN, -131073, -1, 0, INT_MAX, 23, 22});
    case 1: return one_of<int>({-1, 0, 1, 1, 3, 6, 9, 10, 12, 13});
    default: return pick(-200, 200);
  }
}

// many_blocks: bias towards the minimum block size so that tables span many blocks
inline WConfig gen_config(bool many_blocks = false, bool allow_pool = true) {
  WConfig c;
  if (chance(3)) {
    c.null_opts = true;
    return c;
  }
  c.comp = weighted({30, 14, 20, 12, 12, 12});
  c.level_set = chance(40);
  if (c.level_set) {
    c.level = gen_level();
    // keep expensive levels for small inputs only: zstd >= 13 / lz4hc >= 10 are slow on big tables
  }
  if (many_blocks) {
    c.block_size = one_of<long long>({1, 1024, 1024, 1024, 1025, 1500, 2048});
  } else {
    c.block_size_set = !chance(10);
    c.block_size = one_of<long long>({1, 1024, 1024, 1025, 1500, 4096, 8192, 65536, 262144});  // 256 KiB: several > 64 KiB entries per block
    // "never cut a block": sizes far beyond any table (the option is a size_t without an upper bound; the trailer records it)
    if (chance(4)) c.block_size = one_of<long long>({1ll << 32, (1ll << 48) + 12345, 0x7fffffffffffffffll, 0x0123456789abcdefll});
  }
  c.restart = one_of<int>({1, 2, 3, 4, 7, 16, 16, 1000});
  if (allow_pool && chance(25)) c.pool = one_of<int>({0, 1, 2, 4, 8});
  if (chance(25)) {
    c.prefix_len = one_of<int>({1, 13, 511, 512, 513, 5000});
    c.prefix_seed = (uint32_t)pick(0, 1000);
  }
  c.madvise = chance(15);
  c.by_path = chance(10);
  return c;
}

// ---------------------------------------------------------------- key / value shapes
struct KeyUniverse {
  std::vector<unsigned char> alphabet;
  BStr long_prefix;  // per-table long common prefix (shape b)
};
inline KeyUniverse gen_universe() {
  static const unsigned char syms[] = {0x00, 0x01, 0x7f, 0x80, 0xfe, 0xff, 'a', 'b'};
  KeyUniverse u;
  int n = pick(3, 6);
  std::set<unsigned char> s;
  while ((int)s.size() < n) s.insert(syms[pick(0, 7)]);
  u.alphabet.assign(s.begin(), s.end());
  u.long_prefix.glen = (uint32_t)one_of<int>({10, 40, 100, 126, 127, 128, 200, 300});
  u.long_prefix.gkind = (uint8_t)one_of<int>({0, 1, 2});
  u.long_prefix.gseed = (uint32_t)pick(0, 255);
  return u;
}
inline bytes gen_small(const KeyUniverse &u, int maxlen = 6) {
  int len = weighted({6, 18, 25, 22, 14, 9, 6});
  if (len > maxlen) len = maxlen;
  bytes b;
  for (int i = 0; i < len; i++) b.push_back((char)u.alphabet[(size_t)pick(0, (int)u.alphabet.size() - 1)]);
  return b;
}
// BStr expands as lit+generated; a "generated prefix + literal suffix" key is expressed by
// expanding the prefix eagerly only when short; long prefixes are shared via `pre`.
struct SKey {
  BStr pre;   // generated part placed first (may be empty)
  bytes suf;  // literal suffix
  bytes expand() const { return pre.expand() + suf; }
};

inline bytes gen_key_bytes(const KeyUniverse &u, bool allow_huge) {
  switch (weighted({45, 20, 6, 14, 15})) {
    case 0: return gen_small(u);
    case 1: return u.long_prefix.expand() + gen_small(u);
    case 2: {  // lengths straddling varint boundaries
      int target;
      if (allow_huge && chance(25)) target = chance(70) ? pick(16382, 16385) : pick(65534, 65538);
      else target = chance(65) ? pick(126, 130) : pick(254, 258);
      bytes head = gen_small(u, 3);
      BStr t;
      t.glen = (uint32_t)(target - (int)head.size());
      t.gkind = (uint8_t)one_of<int>({0, 1});
      t.gseed = (uint32_t)pick(0, 255);
      return head + t.expand();
    }
    case 3: {
      char buf[16];
      snprintf(buf, sizeof buf, "%08x", (unsigned)pick(0, 4000));
      return bytes(buf);
    }
    default: {
      int len = pick(0, 20);
      bytes b;
      for (int i = 0; i < len; i++) b.push_back((char)pick(0, 255));
      return b;
    }
  }
}

// Compress a concrete byte string into the symbolic BStr form when it is long (keeps
// replay files small): we store long strings as literal since they were produced
// from generators anyway; to stay simple, keys are stored literally (hex) -- keys above
// 200 bytes are rare enough.  Values use the symbolic tail.
// profile: 0 = small values only (many entries per block), 1 = mix without huge shapes, 2 = everything
inline BStr gen_value(size_t eff_block, int profile = 2) {
  BStr v;
  int shape = profile == 0 ? weighted({30, 70}) : profile == 1 ? weighted({15, 30, 35, 8, 0, 0, 6}) : weighted({15, 30, 35, 8, 4, 4, 4});
  switch (shape) {
    case 0: break;
    case 1: {
      int len = pick(1, 8);
      for (int i = 0; i < len; i++) v.lit.push_back((char)pick(0, 255));
      break;
    }
    case 2: v.glen = (uint32_t)pick(100, 400); break;
    case 3: v.glen = (uint32_t)(chance(60) ? pick(126, 130) : pick(254, 258)); break;
    case 4: v.glen = (uint32_t)(chance(70) ? pick(16382, 16386) : pick(65534, 65538)); break;
    case 5: v.glen = (uint32_t)(eff_block > 70000 ? 70000 : eff_block) + (uint32_t)pick(1, 2000); break;
    default: v.glen = (uint32_t)pick(900, 1100); break;
  }
  if (v.glen) {
    v.gkind = (uint8_t)weighted({50, 25, 15, 10});
    v.gseed = (uint32_t)pick(0, 65535);
  }
  return v;
}

// A table: distinct keys in ascending order.  `maxn` bounds the entry count.
inline std::vector<SEntry> gen_table(size_t eff_block, int maxn, bool allow_huge = true, const KeyUniverse *uni = nullptr) {
  KeyUniverse u0;
  if (!uni) {
    u0 = gen_universe();
    uni = &u0;
  }
  int n = weighted({4, 6, 90}) == 0 ? 0 : pick(1, std::max(1, maxn));
  int profile = allow_huge ? weighted({25, 45, 30}) : weighted({35, 65});
  std::map<bytes, BStr, BLess> m;
  if (allow_huge && maxn >= 100 && chance(1)) {
    // a table with just over 2^16 entries (counts and per-table offsets cross 16-bit boundaries); tiny entries
    int cnt = pick(65530, 65545);
    for (int i = 0; i < cnt; i++) {
      char k[16];
      snprintf(k, sizeof k, "%05x", i * 3);
      BStr v;
      if (i % 11 == 0) v.lit = bytes(1, (char)i);
      m[bytes(k)] = v;
    }
    n = 0;
  }
  for (int i = 0; i < n; i++) {
    bytes k = gen_key_bytes(*uni, allow_huge && profile == 2);
    if (m.count(k)) continue;
    m[k] = gen_value(eff_block, profile);
  }
  if (allow_huge && !m.empty() && chance(1)) {
    // one value of 2-3 MiB with an odd length (its length needs a four-byte varint)
    auto it = m.begin();
    std::advance(it, pick(0, (int)m.size() - 1));
    it->second = BStr();
    it->second.glen = (uint32_t)pick(2097153, 3000000);
    it->second.gkind = (uint8_t)one_of<int>({0, 2});
    it->second.gseed = (uint32_t)pick(0, 65535);
  }
  std::vector<SEntry> out;
  for (auto &kv : m) {
    SEntry e;
    e.k = BStr::of(kv.first);
    e.v = kv.second;
    out.push_back(e);
  }
  return out;
}

// A table of thousands of one-entry blocks written through an 8-thread pool: many blocks are compressed at the same time, so
// anything the compression / block-building code shares between threads (a static work area, a statistic updated by the
// workers) shows up as a wrong block or a wrong count every now and then.
inline void gen_many_blocks_pooled(WConfig &cfg, std::vector<SEntry> &entries) {
  cfg = WConfig();
  cfg.comp = pick(0, 5);
  cfg.block_size = 1024;
  cfg.pool = 8;
  // either thousands of 1 KiB blocks, or hundreds of 20 KiB ones (compressing a block then takes longer than building the
  // next one, so several really are in flight together even in a sanitizer build)
  bool big = chance(50);
  int nblk = big ? pick(300, 600) : pick(1500, 4000);
  entries.clear();
  for (int i = 0; i < nblk; i++) {
    SEntry e;
    char k[16];
    snprintf(k, sizeof k, "b%06d", i);
    e.k = BStr::of(bytes(k));
    e.v.glen = big ? 20000 : 1100;
    e.v.gseed = (uint32_t)i;
    e.v.gkind = (uint8_t)(i % 3 == 0 ? 0 : 2);  // incompressible and "abcabc..." values alternate
    entries.push_back(e);
  }
}

// One 256 KiB block holding a dozen or two entries at restart interval 1-3, a few of which carry values whose LENGTH needs a
// three-byte varint (16 KiB and more): entry headers inside a block are then longer than the common three bytes, also at
// restart points.
inline void gen_big_values_in_big_blocks(WConfig &cfg, std::vector<SEntry> &entries) {
  cfg = WConfig();
  cfg.comp = weighted({60, 10, 10, 10, 5, 5});
  cfg.block_size = 262144;
  cfg.restart = pick(1, 3);
  int n = pick(8, 24);
  entries.clear();
  for (int i = 0; i < n; i++) {
    SEntry e;
    char k[16];
    snprintf(k, sizeof k, "key%03d", i * 10);
    e.k = BStr::of(bytes(k));
    if (chance(20)) {
      e.v.glen = (uint32_t)one_of<int>({16383, 16384, 16385, 20000, 65536});
      e.v.gkind = 0;
    } else e.v.glen = (uint32_t)pick(0, 60);
    e.v.gseed = (uint32_t)i;
    entries.push_back(e);
  }
}

inline KVs expand_entries(const std::vector<SEntry> &es) {
  KVs out;
  out.reserve(es.size());
  for (auto &e : es) out.emplace_back(e.k.expand(), e.v.expand());
  return out;
}
inline void ser_entries(Out &o, const std::vector<SEntry> &es, const char *tag = "entry") {
  for (auto &e : es) o << tag << " " << e.k.ser() << " " << e.v.ser() << "\n";
}
inline SEntry parse_entry(const std::vector<std::string> &row) {
  SEntry e;
  e.k = BStr::parse(row.size() > 1 ? row[1] : "-");
  e.v = BStr::parse(row.size() > 2 ? row[2] : "-");
  return e;
}

// ---------------------------------------------------------------- real API glue
struct PoolHolder {
  struct mtbl_threadpool *p = nullptr;
  explicit PoolHolder(int n) {
    if (n >= 0) p = mtbl_threadpool_init((size_t)n);
  }
  ~PoolHolder() {
    if (p) mtbl_threadpool_destroy(&p);
  }
};

inline struct mtbl_writer_options *make_wopts(const WConfig &c, struct mtbl_threadpool *pool) {
  if (c.null_opts) return nullptr;
  struct mtbl_writer_options *o = mtbl_writer_options_init();
  mtbl_writer_options_set_compression(o, (mtbl_compression_type)c.comp);
  if (c.level_set) mtbl_writer_options_set_compression_level(o, c.level);
  if (c.block_size_set) mtbl_writer_options_set_block_size(o, (size_t)c.block_size);
  mtbl_writer_options_set_block_restart_interval(o, (size_t)c.restart);
  if (pool) mtbl_writer_options_set_threadpool(o, pool);
  return o;
}

inline int new_memfd(const char *name = "vf") {
  int fd = memfd_create(name, 0);
  if (fd < 0) {
    perror("memfd_create");
    _exit(3);
  }
  return fd;
}
inline bytes fd_contents(int fd) {
  struct stat st;
  fstat(fd, &st);
  bytes b((size_t)st.st_size, '\0');
  size_t off = 0;
  while (off < b.size()) {
    ssize_t n = pread(fd, &b[off], b.size() - off, (off_t)off);
    if (n <= 0) break;
    off += (size_t)n;
  }
  return b;
}
// bytes of the file from absolute offset `base` to the end (for tables written behind a huge sparse hole)
inline bytes fd_tail(int fd, unsigned long long base) {
  struct stat st;
  fstat(fd, &st);
  if ((unsigned long long)st.st_size < base) return bytes();
  bytes b((size_t)((unsigned long long)st.st_size - base), '\0');
  size_t off = 0;
  while (off < b.size()) {
    ssize_t n = pread(fd, &b[off], b.size() - off, (off_t)(base + off));
    if (n <= 0) break;
    off += (size_t)n;
  }
  return b;
}
inline int fd_from_bytes(const bytes &b, const char *name = "vf-img") {
  int fd = new_memfd(name);
  write_all_fd(fd, b);
  return fd;
}

static int g_path_counter = 0;
// Writes a table with the real writer.  `accepted` (optional) receives the result of every add.
// Returns an fd positioned anywhere (readers stat+mmap the whole file); for by_path the file
// is created at a fresh path in the scratch directory and re-opened.
inline int write_table(const WConfig &c, const KVs &entries, std::vector<bool> *accepted = nullptr,
                       std::string *path_out = nullptr) {
  PoolHolder ph(c.null_opts ? -1 : c.pool);
  struct mtbl_writer_options *wo = make_wopts(c, ph.p);
  struct mtbl_writer *w = nullptr;
  int fd = -1;
  std::string path;
  bytes pre = c.prefix_bytes();
  if (c.sparse_off) {
    fd = new_memfd("vf-sparse");
    if (ftruncate(fd, (off_t)c.sparse_off) || lseek(fd, (off_t)c.sparse_off, SEEK_SET) != (off_t)c.sparse_off) {
      perror("sparse memfd");
      _exit(3);
    }
    w = mtbl_writer_init_fd(fd, wo);
  } else if (c.by_path && pre.empty()) {
    ensure_tmpdir();
    path = g_tmpdir + "/t" + std::to_string(getpid()) + "_" + std::to_string(g_path_counter++) + ".mtbl";
    unlink(path.c_str());
    w = mtbl_writer_init(path.c_str(), wo);
  } else {
    fd = new_memfd("vf-table");
    if (!pre.empty()) write_all_fd(fd, pre);
    w = mtbl_writer_init_fd(fd, wo);
  }
  if (wo) mtbl_writer_options_destroy(&wo);
  if (!w) return -1;
  for (auto &kv : entries) {
    mtbl_res r = mtbl_writer_add(w, U(kv.first), kv.first.size(), U(kv.second), kv.second.size());
    if (accepted) accepted->push_back(r == mtbl_res_success);
  }
  mtbl_writer_destroy(&w);
  if (fd < 0) {
    fd = open(path.c_str(), O_RDONLY);
    if (path_out) *path_out = path;
    else unlink(path.c_str());
  }
  return fd;
}

inline struct mtbl_reader *open_reader_fd(int fd, bool verify = false, bool madvise = false) {
  struct mtbl_reader_options *ro = mtbl_reader_options_init();
  mtbl_reader_options_set_verify_checksums(ro, verify);
  mtbl_reader_options_set_madvise_random(ro, madvise);
  struct mtbl_reader *r = mtbl_reader_init_fd(fd, ro);
  mtbl_reader_options_destroy(&ro);
  return r;
}

inline KVs drain(struct mtbl_iter *it, size_t limit = (size_t)-1) {
  KVs out;
  const uint8_t *k, *v;
  size_t lk, lv;
  while (out.size() < limit && mtbl_iter_next(it, &k, &lk, &v, &lv) == mtbl_res_success)
    out.emplace_back(bytes((const char *)k, lk), bytes((const char *)v, lv));
  return out;
}

// The fixed prelude of history mode 1 (see vf.h): the process writes four small tables (zlib, zstd, lz4hc, none behind 13
// foreign bytes), reads each with checksum verification (full iteration, get, prefix, range, a few seeks), merges two of
// them, calls every codec once, and destroys everything.  Nothing is judged here; the point is that the case that follows
// runs in a process whose library state is no longer pristine.
inline void table_prelude() {
  KVs kv;
  for (int i = 0; i < 60; i++) {
    char k[24];
    snprintf(k, sizeof k, "pre%c%03d", (i % 3) ? 'a' : '\xff', i * 3);
    bytes v((size_t)((i * 37) % 300), (char)('A' + i % 23));
    for (size_t j = 0; j < v.size(); j += 7) v[j] = (char)(i + (int)j);
    kv.emplace_back(bytes(k), v);
  }
  std::sort(kv.begin(), kv.end(), [](const KV &a, const KV &b) { return bcmp3(a.first, b.first) < 0; });
  std::vector<int> fds;
  std::vector<struct mtbl_reader *> rds;
  static const int comps[] = {2, 5, 4, 0};
  for (int t = 0; t < 4; t++) {
    WConfig c;
    c.comp = comps[t];
    c.block_size = 1024;
    c.restart = 3 + t;
    if (t == 3) c.prefix_len = 13;
    int fd = write_table(c, kv);
    if (fd < 0) continue;
    struct mtbl_reader *rd = open_reader_fd(fd, true, t == 1);
    fds.push_back(fd);
    if (!rd) continue;
    rds.push_back(rd);
    const struct mtbl_source *src = mtbl_reader_source(rd);
    const bytes &mid = kv[kv.size() / 2].first, &lo = kv[3].first, &hi = kv[kv.size() - 4].first;
    struct mtbl_iter *its[4] = {mtbl_source_iter(src), mtbl_source_get(src, U(mid), mid.size()), mtbl_source_get_prefix(src, U(bytes("prea")), 4),
                                mtbl_source_get_range(src, U(lo), lo.size(), U(hi), hi.size())};
    for (auto &it : its) {
      if (!it) continue;
      drain(it, 25);
      (void)mtbl_iter_seek(it, U(mid), mid.size());
      drain(it, 3);
      (void)mtbl_iter_seek(it, U(lo), lo.size());
      drain(it);
      mtbl_iter_destroy(&it);
    }
  }
  if (rds.size() >= 2) {
    struct mtbl_merger_options *mo = mtbl_merger_options_init();
    mtbl_merger_options_set_merge_func(mo, [](void *, const uint8_t *, size_t, const uint8_t *v0, size_t l0, const uint8_t *, size_t, uint8_t **out, size_t *lout) {
      *out = (uint8_t *)malloc(l0 ? l0 : 1);
      memcpy(*out, v0, l0);
      *lout = l0;
    }, nullptr);
    struct mtbl_merger *mg = mtbl_merger_init(mo);
    mtbl_merger_options_destroy(&mo);
    mtbl_merger_add_source(mg, mtbl_reader_source(rds[0]));
    mtbl_merger_add_source(mg, mtbl_reader_source(rds[1]));
    struct mtbl_iter *it = mtbl_source_iter(mtbl_merger_source(mg));
    if (it) {
      drain(it);
      mtbl_iter_destroy(&it);
    }
    mtbl_merger_destroy(&mg);
  }
  for (auto &rd : rds) mtbl_reader_destroy(&rd);
  for (int fd : fds) close(fd);
  bytes buf(3000, 'q');
  for (size_t i = 0; i < buf.size(); i += 5) buf[i] = (char)i;
  for (int a = 1; a <= 5; a++) {
    uint8_t *o = nullptr, *d = nullptr;
    size_t lo2 = 0, ld = 0;
    if (mtbl_compress((mtbl_compression_type)a, U(buf), buf.size(), &o, &lo2) == mtbl_res_success) {
      if (mtbl_decompress((mtbl_compression_type)a, o, lo2, &d, &ld) == mtbl_res_success) free(d);
      free(o);
    }
  }
  uint8_t vb[10];
  (void)mtbl_varint_encode64(vb, 0xffffffffffffffffull);
  (void)mtbl_crc32c(U(buf), buf.size());
}

// first difference between two entry sequences, "" if equal
inline std::string diff_kvs(const KVs &got, const KVs &want) {
  size_t n = std::min(got.size(), want.size());
  for (size_t i = 0; i < n; i++) {
    if (got[i].first != want[i].first)
      return "entry " + std::to_string(i) + ": key " + show(got[i].first) + " but expected " + show(want[i].first);
    if (got[i].second != want[i].second)
      return "entry " + std::to_string(i) + " key " + show(got[i].first) + ": value " + show(got[i].second) + " but expected " + show(want[i].second);
  }
  if (got.size() != want.size())
    return "got " + std::to_string(got.size()) + " entries but expected " + std::to_string(want.size()) +
           (got.size() > want.size() ? " (first extra key " + show(got[n].first) + ")" : " (first missing key " + show(want[n].first) + ")");
  return "";
}

// ---------------------------------------------------------------- reference model
struct RefTable {
  KVs e;  // ascending, distinct keys (or non-decreasing when duplicates are modelled)
  size_t first_ge(const bytes &k) const {
    size_t i = 0;
    while (i < e.size() && bcmp3(e[i].first, k) < 0) i++;
    return i;
  }
  KVs get(const bytes &k) const {
    KVs o;
    for (auto &x : e)
      if (x.first == k) o.push_back(x);
    return o;
  }
  KVs get_prefix(const bytes &p) const {
    KVs o;
    for (auto &x : e)
      if (has_prefix(x.first, p)) o.push_back(x);
    return o;
  }
  KVs get_range(const bytes &a, const bytes &b) const {
    KVs o;
    for (auto &x : e)
      if (bcmp3(x.first, a) >= 0 && bcmp3(x.first, b) <= 0) o.push_back(x);
    return o;
  }
};

// neighbours of a key used by query generators
inline bytes key_pred(const bytes &k) {  // a string just below k (not necessarily the immediate predecessor)
  if (k.empty()) return k;
  bytes p = k;
  unsigned char c = (unsigned char)p.back();
  if (c == 0) {
    p.pop_back();
    return p;
  }
  p.back() = (char)(c - 1);
  p.push_back((char)0xff);
  return p;
}
inline bytes key_succ(const bytes &k) {  // immediate successor
  return k + bytes(1, '\0');
}

}  // namespace vf
