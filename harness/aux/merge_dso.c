/* Test merge DSO for src/mtbl_merge: concatenates the two values (order-sensitive, so the
 * harness can tell whether every value was folded exactly once). Prefix: vfm */
#include <stdint.h>
#include <stdlib.h>
#include <string.h>
void vfm_func(void *clos, const uint8_t *key, size_t len_key, const uint8_t *v0, size_t l0, const uint8_t *v1, size_t l1,
              uint8_t **merged, size_t *len_merged) {
  (void)clos; (void)key; (void)len_key;
  *len_merged = l0 + l1;
  *merged = malloc(l0 + l1 ? l0 + l1 : 1);
  memcpy(*merged, v0, l0);
  memcpy(*merged + l0, v1, l1);
}
