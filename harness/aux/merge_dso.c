/* Test merge DSO for src/mtbl_merge: concatenates the two values (order-sensitive, so the
 * harness can tell whether every value was folded exactly once). Prefix: vfm
 * The DSO has an init function; the closure it returns must be what the merge function and the
 * free function receive (mtbl_merge(1)).  A merge call that gets anything else marks its output
 * with the byte 0x21 ('!'), which no source value contains, so the check sees a wrong value. */
#include <stdint.h>
#include <stdlib.h>
#include <string.h>
struct vfm_clos { uint32_t magic; long calls; };
void *vfm_init_func(void) {
  struct vfm_clos *c = malloc(sizeof *c);
  c->magic = 0x5eed600du;
  c->calls = 0;
  return c;
}
void vfm_free_func(void *clos) {
  struct vfm_clos *c = clos;
  if (c == NULL || c->magic != 0x5eed600du) abort(); /* the tool must hand back what init returned */
  c->magic = 0;
  free(c);
}
void vfm_func(void *clos, const uint8_t *key, size_t len_key, const uint8_t *v0, size_t l0, const uint8_t *v1, size_t l1,
              uint8_t **merged, size_t *len_merged) {
  struct vfm_clos *c = clos;
  int bad = (c == NULL || c->magic != 0x5eed600du);
  (void)key; (void)len_key;
  if (!bad) c->calls++;
  *len_merged = l0 + l1 + (bad ? 4 : 0);
  *merged = malloc(*len_merged ? *len_merged : 1);
  memcpy(*merged, v0, l0);
  memcpy(*merged + l0, v1, l1);
  if (bad) memset(*merged + l0 + l1, 0x21, 4);
}
