#!/bin/sh
# MANIFEST.setup_cmd: pre-compile the harness translation units (they depend on /repo only through its headers)
# and warm the build cache for the current /repo tree.  Everything is offline; nothing outside /verif/build is written.
cd "$(dirname "$0")" && exec ./vf --setup
