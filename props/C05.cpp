// C05 — merger lookups and seeks behave like one table holding the merged content
#define VF_MAIN
#include "mergecommon.h"
using namespace vf;

struct Case {
  SrcFamily fam;
  int dupsort = 0;
  int merge = 1;  // 1: concatenating merge function; 0: no merge function — then either the key sets are disjoint across
                  // sources, or a dupsort function is set (values are distinct tokens, so (key, value) is a total order and
                  // "one table holding the merged content" is the multiset sorted by it)
  int nest = 0;   // 1: the first two sources are wrapped into an inner merger (same options) that is itself a source
  std::vector<IterSpec> iters;
  std::vector<Op> ops;
  std::vector<bytes> extra;
  uint32_t qseed = 1;
  int queries = 1;  // also run the derived query set
  bool valid() const {
    if (!fam.valid() || dupsort < 0 || dupsort > 2 || iters.empty() || iters.size() > 4 || merge < 0 || merge > 1) return false;
    if (merge == 0 && dupsort == 0)
      for (auto &kv : fam.occurrences())
        if (kv.second > 1) return false;
    if (nest < 0 || nest > 1) return false;
    if (merge == 0 && fam.has_dups_within_a_source()) return false;
    for (auto &o : ops)
      if (o.it < 0 || o.it >= (int)iters.size()) return false;
    return true;
  }
  std::string ser() const {
    Out o;
    o << "property C05\n";
    o << "opts dupsort=" << dupsort << " merge=" << merge << " nest=" << nest << " qseed=" << qseed << " queries=" << queries << "\n";
    fam.ser(o);
    for (size_t i = 0; i < iters.size(); i++) o << "iter " << i << " " << iters[i].ser() << "\n";
    for (auto &e : extra) o << "query " << (e.empty() ? "-" : hex(e)) << "\n";
    for (auto &op : ops) o << op.ser() << "\n";
    return o.str();
  }
  static Case parse(const std::string &text) {
    Case c;
    for (auto &row : Lines::parse(text).rows) {
      if (row[0] == "opts") {
        for (size_t i = 1; i < row.size(); i++) {
          size_t e = row[i].find('=');
          if (e == std::string::npos) continue;
          std::string k = row[i].substr(0, e);
          long long v = atoll(row[i].c_str() + e + 1);
          if (k == "dupsort") c.dupsort = (int)v;
          else if (k == "merge") c.merge = (int)v;
          else if (k == "nest") c.nest = (int)v;
          else if (k == "qseed") c.qseed = (uint32_t)v;
          else if (k == "queries") c.queries = (int)v;
        }
      } else if (row[0] == "iter") c.iters.push_back(IterSpec::parse(row, 2));
      else if (row[0] == "op") c.ops.push_back(Op::parse(row));
      else if (row[0] == "query" && row.size() > 1) c.extra.push_back(row[1] == "-" ? bytes() : unhex(row[1]));
      else c.fam.parse_row(row);
    }
    return c;
  }
};

static Case gen_case() {
  Case c;
  c.fam = gen_family(16, true);
  c.dupsort = weighted({60, 20, 20});
  c.nest = chance(25);
  bool nomerge = false;
  if (chance(15)) {
    nomerge = true;
    // no merge function, duplicates across sources allowed: a dupsort function makes the order of equal keys defined
    c.merge = 0;
    c.dupsort = chance(50) ? 1 : 2;
  } else if (chance(20)) {
    // no merge function: make the key sets disjoint by giving every source its own last byte
    nomerge = true;
    c.merge = 0;
    for (size_t si = 0; si < c.fam.srcs.size(); si++) {
      std::set<bytes, BLess> ks;
      for (auto k : c.fam.srcs[si].keys) {
        if (chance(70)) k.push_back((char)('0' + si));
        else k.insert(k.begin(), (char)('0' + si));
        ks.insert(k);
      }
      c.fam.srcs[si].keys.assign(ks.begin(), ks.end());
    }
    std::map<bytes, int, BLess> seen;
    for (auto &sp : c.fam.srcs) {
      std::vector<bytes> keep;
      for (auto &k : sp.keys)
        if (seen[k]++ == 0) keep.push_back(k);
      sp.keys = keep;
    }
  }
  if (nomerge) c.fam.dedupe_within_sources();
  RefTable m = c.fam.merged();
  KeyUniverse u;
  std::set<unsigned char> al;
  for (auto &kv : m.e)
    for (unsigned char ch : kv.first) al.insert(ch);
  if (al.empty()) al.insert('a');
  u.alphabet.assign(al.begin(), al.end());
  int ni = weighted({70, 26, 4}) + 1;
  for (int i = 0; i < ni; i++) c.iters.push_back(gen_iter_spec(m.e, u));
  c.ops = gen_ops(ni, 30, u);
  // merger-specific seek patterns get extra weight: small deltas dominate because the universe is tiny
  for (auto &o : c.ops)
    if (o.type == 1 && (o.delta > 3 || o.delta < -3) && o.delta > -1000 && o.delta < 1000) o.delta = o.delta > 0 ? 1 + o.delta % 3 : -(1 + (-o.delta) % 3);
  int nx = pick(0, 4);
  for (int i = 0; i < nx; i++) c.extra.push_back(gen_small(u, 3));
  c.qseed = (uint32_t)pick(1, 1 << 30);
  c.queries = chance(60);
  return c;
}

static Result run_case(const Case &c) {
  return run_isolated([&](Result &r) {
    LiveSources ls;
    if (!ls.build(c.fam, r)) return;
    RefTable model = c.fam.merged();
    if (!c.merge) {
      // every source entry is emitted; equal keys ordered by the dupsort function (bytewise / reverse bytewise on the value)
      model.e.clear();
      for (size_t i = 0; i < c.fam.srcs.size(); i++)
        for (auto &kv : c.fam.content(i)) model.e.push_back(kv);
      int sign = c.dupsort == 2 ? -1 : 1;
      std::stable_sort(model.e.begin(), model.e.end(), [&](const KV &x, const KV &y) {
        int k = bcmp3(x.first, y.first);
        if (k) return k < 0;
        return sign * bcmp3(x.second, y.second) < 0;
      });
    }
    MergeClos mc;
    mc.keep_log = false;
    struct mtbl_merger_options *mo = mtbl_merger_options_init();
    if (c.merge) mtbl_merger_options_set_merge_func(mo, c.fam.merge_func(), &mc);
    if (c.dupsort) mtbl_merger_options_set_dupsort_func(mo, dupsort_bytewise, c.dupsort == 2 ? (void *)1 : nullptr);
    struct mtbl_merger *mg = mtbl_merger_init(mo);
    mtbl_merger_options_destroy(&mo);
    struct mtbl_merger *inner = nullptr;
    if (c.nest && ls.sources.size() >= 2) {
      struct mtbl_merger_options *io = mtbl_merger_options_init();
      if (c.merge) mtbl_merger_options_set_merge_func(io, c.fam.merge_func(), &mc);
      if (c.dupsort) mtbl_merger_options_set_dupsort_func(io, dupsort_bytewise, c.dupsort == 2 ? (void *)1 : nullptr);
      inner = mtbl_merger_init(io);
      mtbl_merger_options_destroy(&io);
      mtbl_merger_add_source(inner, ls.sources[0]);
      mtbl_merger_add_source(inner, ls.sources[1]);
      mtbl_merger_add_source(mg, mtbl_merger_source(inner));
      for (size_t i = 2; i < ls.sources.size(); i++) mtbl_merger_add_source(mg, ls.sources[i]);
      r.tag("nested_merger_as_source");
    } else
      for (auto s : ls.sources) mtbl_merger_add_source(mg, s);
    const struct mtbl_source *src = mtbl_merger_source(mg);

    HistStats hs;
    ValueCmp vcmp = c.merge ? c.fam.cmp() : ValueCmp();
    std::string e = run_history(src, model, c.iters, c.ops, hs, vcmp);
    if (!e.empty()) r.failf("%s", e.c_str());
    QueryStats qst;
    if (!r.fail && c.queries) {
      std::vector<bytes> qs = derived_queries(model, {}, c.extra, c.qseed);
      e = run_queries(src, model, qs, c.qseed, qst, vcmp);
      if (!e.empty()) r.failf("%s", e.c_str());
    }
    mtbl_merger_destroy(&mg);
    if (inner) mtbl_merger_destroy(&inner);

    std::set<std::vector<bytes>> keysets;
    for (auto &s : c.fam.srcs) keysets.insert(s.keys);
    bool differing = c.fam.srcs.size() >= 2 && keysets.size() >= 2;
    bool merged_keys = false;
    for (auto &kv : c.fam.occurrences())
      if (kv.second >= 2) merged_keys = true;
    r.nontrivial = differing && hs.seeks > 0 && hs.nexts > 0;
    if (differing) r.tag("sources_with_different_key_sets");
    if (merged_keys) r.tag("keys_needing_merge");
    if (hs.seek_to_last_returned) r.tag("seek_to_key_just_returned");
    if (hs.backward_seek) r.tag("backward_seek");
    if (hs.seek_after_exhaustion) r.tag("seek_after_failure");
    if (c.queries) r.tag("lookups_through_merger_source");
    if (!c.merge) r.tag(c.dupsort && merged_keys ? "no_merge_function_duplicates_ordered_by_dupsort" : "no_merge_function_disjoint_sources");
    for (auto &s : c.iters) r.tag("kind_" + std::to_string(s.kind));
    for (auto &s : c.fam.srcs)
      if (s.kind == 1) r.tag("user_defined_source");
    if (c.fam.has_dups_within_a_source()) r.tag("source_yielding_a_key_twice");
    r.counters["queries_get"] = qst.gets;
    r.counters["queries_range"] = qst.ranges;
  });
}

int main(int argc, char **argv) {
  g_history_enabled = true;  // process-history modes (harness/vf.h): prelude first / the case body twice in one process
  g_prelude_fn = table_prelude;
  return vf_main<Case>(argc, argv, "C05", gen_case, run_case);
}
