// C14 — no data races in the concurrent uses the API allows (ThreadSanitizer build, real threads)
#define VF_MAIN
#include "mergecommon.h"
#include "../harness/refcodec.h"
#include <pthread.h>
using namespace vf;

extern "C" const char *__tsan_default_options() {
  return "halt_on_error=1:exitcode=66:die_after_fork=0:report_signal_unsafe=0:second_deadlock_stack=1:history_size=4";
}

struct Case {
  int kind = 0;      // 0 writers sharing a pool from separate caller threads, 1 pooled sorter, 2 threads on one shared reader, 3 all of them at once
  int pool = 2;      // pool size
  int writers = 2;   // caller threads with one pooled writer each
  int blocks = 6;    // approx. blocks per writer
  int chunks = 4;    // sorter chunks
  int readers = 4;   // threads on the shared reader
  int comp = 2;
  uint32_t seed = 1;
  bool valid() const { return kind >= 0 && kind <= 3 && pool >= 1 && pool <= 16 && writers >= 1 && writers <= 4 && blocks >= 1 && blocks <= 300 && chunks >= 0 && chunks <= 40 && readers >= 1 && readers <= 16 && comp >= 0 && comp <= 5; }
  std::string ser() const {
    Out o;
    o << "property C14\nworkload kind=" << kind << " pool=" << pool << " writers=" << writers << " blocks=" << blocks << " chunks=" << chunks << " readers=" << readers
      << " comp=" << comp << " seed=" << seed << "\n";
    return o.str();
  }
  static Case parse(const std::string &t) {
    Case c;
    for (auto &row : Lines::parse(t).rows)
      if (row[0] == "workload")
        for (size_t i = 1; i < row.size(); i++) {
          size_t e = row[i].find('=');
          if (e == std::string::npos) continue;
          std::string k = row[i].substr(0, e);
          long long v = atoll(row[i].c_str() + e + 1);
          if (k == "kind") c.kind = (int)v;
          else if (k == "pool") c.pool = (int)v;
          else if (k == "writers") c.writers = (int)v;
          else if (k == "blocks") c.blocks = (int)v;
          else if (k == "chunks") c.chunks = (int)v;
          else if (k == "readers") c.readers = (int)v;
          else if (k == "comp") c.comp = (int)v;
          else if (k == "seed") c.seed = (uint32_t)v;
        }
    return c;
  }
};
static Case gen_case() {
  Case c;
  c.kind = weighted({30, 25, 30, 15});
  c.pool = one_of<int>({1, 2, 2, 3, 4, 8});
  c.writers = pick(1, 3);
  c.blocks = one_of<int>({1, 5, 12, 40, 200});
  c.chunks = pick(1, 12);
  c.readers = pick(2, 8);
  c.comp = pick(0, 5);
  c.seed = pick_u32();
  return c;
}

static KVs table_for(int blocks, int salt) {
  KVs kv;
  for (int i = 0; i < blocks * 3; i++) {
    char k[24];
    snprintf(k, sizeof k, "k%05d", i * 2 + salt % 2);
    BStr v;
    v.glen = 300;
    v.gseed = (uint32_t)(i + salt);
    v.gkind = (uint8_t)(i % 3 ? 2 : 0);
    if (i % 7 == 3) {
      // a few blocks that compress 10:1 to 100:1, with growing ratios along the table: decompression has to enlarge its
      // output buffer, and whatever it learns from that must not be shared between threads without synchronisation
      v.glen = 1500 + 500 * (uint32_t)(i % 5) + (uint32_t)i * 20;
      v.gkind = 1;
    }
    kv.emplace_back(bytes(k), v.expand());
  }
  return kv;
}

struct WriterJob {
  struct mtbl_threadpool *tp;
  int comp, blocks, salt;
  bytes out;
  std::string err;
};
static void *writer_thread(void *p) {
  WriterJob *j = (WriterJob *)p;
  KVs kv = table_for(j->blocks, j->salt);
  struct mtbl_writer_options *wo = mtbl_writer_options_init();
  mtbl_writer_options_set_compression(wo, (mtbl_compression_type)j->comp);
  mtbl_writer_options_set_block_size(wo, 1024);
  mtbl_writer_options_set_threadpool(wo, j->tp);
  int fd = new_memfd("vf-c14");
  struct mtbl_writer *w = mtbl_writer_init_fd(fd, wo);
  mtbl_writer_options_destroy(&wo);
  for (auto &e : kv)
    if (mtbl_writer_add(w, U(e.first), e.first.size(), U(e.second), e.second.size()) != mtbl_res_success) j->err = "pooled writer refused an increasing key";
  mtbl_writer_destroy(&w);
  j->out = fd_contents(fd);
  close(fd);
  return nullptr;
}
struct SorterJob {
  struct mtbl_threadpool *tp;
  int chunks;
  std::string tdir, err;
  long long fail_at = -1;  // >= 1: the merge callback reports failure at that call; the sorter is then filled further and destroyed
                           // without being iterated (a pooled sorter whose chunk failed cannot be iterated: see DESIGN, section 6)
};
static void *sorter_thread(void *p) {
  SorterJob *j = (SorterJob *)p;
  MergeClos mc;
  mc.keep_log = false;
  mc.fail_at = j->fail_at;
  struct mtbl_sorter_options *so = mtbl_sorter_options_init();
  mtbl_sorter_options_set_temp_dir(so, j->tdir.c_str());
  // chunks of a handful of entries, or (odd chunk counts) chunks of a hundred and more followed by a short tail
  bool large = j->chunks % 2 == 1;
  mtbl_sorter_options_set_max_memory(so, large ? 3000 : 120);
  mtbl_sorter_options_set_merge_func(so, concat_merge, &mc);
  mtbl_sorter_options_set_threadpool(so, j->tp);
  struct mtbl_sorter *s = mtbl_sorter_init(so);
  mtbl_sorter_options_destroy(&so);
  std::map<bytes, bytes, BLess> model;
  for (int i = 0; i < j->chunks * (large ? 60 : 4); i++) {
    char k[8];
    snprintf(k, sizeof k, "s%d", ((i / 2) * 5) % (large ? 997 : 11));  // neighbouring adds share a key: chunk jobs call the merge function too
    bytes v = token(0, i);
    model[bytes(k)] += v;
    if (mtbl_sorter_add(s, (const uint8_t *)k, strlen(k), U(v), v.size()) != mtbl_res_success && j->fail_at < 1) j->err = "sorter add failed";
  }
  if (j->fail_at >= 1) {
    mtbl_sorter_destroy(&s);
    return nullptr;
  }
  struct mtbl_iter *it = mtbl_sorter_iter(s);
  KVs got = it ? drain(it) : KVs();
  if (it) mtbl_iter_destroy(&it);
  mtbl_sorter_destroy(&s);
  size_t i = 0;
  if (got.size() != model.size()) j->err = "pooled sorter: wrong number of entries";
  for (auto &kv : model) {
    if (!j->err.empty() || i >= got.size()) break;
    if (got[i].first != kv.first || !token_multiset_eq(got[i].second, kv.second)) j->err = "pooled sorter: wrong output";
    i++;
  }
  return nullptr;
}
struct ReaderJob {
  const struct mtbl_source *src;
  const RefTable *model;
  uint32_t seed;
  std::string err;
};
static void *reader_thread(void *p) {
  ReaderJob *j = (ReaderJob *)p;
  uint32_t s = j->seed | 1;
  // a deterministic pseudo-random next/seek history and a handful of lookups, all through this thread's own iterators
  std::vector<IterSpec> specs(2);
  size_t n = j->model->e.size();
  if (n) {
    specs[1].kind = 3;
    specs[1].a = j->model->e[lcg(s) % n].first;
    specs[1].b = j->model->e[lcg(s) % n].first;
    if (bcmp3(specs[1].a, specs[1].b) > 0) std::swap(specs[1].a, specs[1].b);
  }
  std::vector<Op> ops;
  for (int i = 0; i < 60; i++) {
    Op o;
    o.it = (int)(lcg(s) % 2);
    if (lcg(s) % 3 == 0) {
      o.type = 1;
      o.delta = (int)(lcg(s) % 41) - 20;
      o.variant = (int)(lcg(s) % 3);
    }
    ops.push_back(o);
  }
  HistStats hs;
  j->err = run_history(j->src, *j->model, specs, ops, hs);
  if (j->err.empty()) {
    QueryStats qs;
    std::vector<bytes> q;
    for (int i = 0; i < 12 && n; i++) q.push_back(j->model->e[lcg(s) % n].first);
    q.push_back(bytes("zzz"));
    j->err = run_queries(j->src, *j->model, q, s, qs);
  }
  return nullptr;
}

static void body(const Case &c, Result &r) {
  ensure_tmpdir();
  std::string tdir = g_tmpdir + "/c14-" + std::to_string(getpid());
  mkdir(tdir.c_str(), 0700);
  bool do_w = c.kind == 0 || c.kind == 3, do_s = c.kind == 1 || c.kind == 3, do_r = c.kind == 2 || c.kind == 3;
  // shared reader prepared up-front (single-threaded)
  RefTable model;
  int rfd = -1;
  struct mtbl_reader *rd = nullptr;
  if (do_r) {
    model.e = table_for(c.blocks > 40 ? 40 : c.blocks, 0);
    WConfig wc;
    wc.comp = c.comp;
    wc.block_size = 1024;
    rfd = write_table(wc, model.e);
    rd = open_reader_fd(rfd, c.seed % 2, false);
  }
  // reference outputs of the un-pooled writer
  std::vector<bytes> ref;
  for (int i = 0; i < c.writers && do_w; i++) {
    WConfig wc;
    wc.comp = c.comp;
    wc.block_size = 1024;
    ref.push_back(fd_contents(write_table(wc, table_for(c.blocks, i))));
  }
  struct mtbl_threadpool *tp = mtbl_threadpool_init((size_t)c.pool);
  std::vector<pthread_t> th;
  std::vector<WriterJob> wj((size_t)(do_w ? c.writers : 0));
  std::vector<ReaderJob> rj((size_t)(do_r ? c.readers : 0));
  SorterJob sj{tp, c.chunks, tdir, ""};
  if (c.seed % 4 == 1) sj.fail_at = 1 + (long long)(c.seed / 4 % 5);
  for (size_t i = 0; i < wj.size(); i++) {
    wj[i] = WriterJob{tp, c.comp, c.blocks, (int)i, bytes(), ""};
    pthread_t t;
    pthread_create(&t, nullptr, writer_thread, &wj[i]);
    th.push_back(t);
  }
  if (do_s) {
    pthread_t t;
    pthread_create(&t, nullptr, sorter_thread, &sj);
    th.push_back(t);
  }
  for (size_t i = 0; i < rj.size(); i++) {
    rj[i] = ReaderJob{mtbl_reader_source(rd), &model, c.seed + (uint32_t)i * 7919u, ""};
    pthread_t t;
    pthread_create(&t, nullptr, reader_thread, &rj[i]);
    th.push_back(t);
  }
  for (auto t : th) pthread_join(t, nullptr);
  mtbl_threadpool_destroy(&tp);
  for (size_t i = 0; i < wj.size(); i++) {
    if (!wj[i].err.empty()) r.failf("writer thread %zu: %s", i, wj[i].err.c_str());
    else if (wj[i].out != ref[i]) r.failf("writer thread %zu: file written through the shared pool differs from the un-pooled file", i);
  }
  if (do_s && !sj.err.empty()) r.failf("%s", sj.err.c_str());
  for (size_t i = 0; i < rj.size(); i++)
    if (!rj[i].err.empty()) r.failf("reader thread %zu: %s", i, rj[i].err.c_str());
  if (rd) mtbl_reader_destroy(&rd);
  if (rfd >= 0) close(rfd);
  rm_rf(tdir);
  r.nontrivial = true;
  r.tag("kind_" + std::to_string(c.kind));
  if (do_w && c.writers > 1) r.tag("writers_sharing_one_pool");
  if (do_w && c.blocks > c.pool) r.tag("more_jobs_than_pool_threads");
  if (do_r) r.tag("threads_on_shared_reader");
  if (do_s && sj.fail_at >= 1) r.tag("pooled_sorter_with_failing_merge_callback");
}
static Result run_case(const Case &c) {
  Result r = run_isolated([&](Result &rr) { body(c, rr); }, 120);
  if (r.fail && r.msg.find("ThreadSanitizer") != std::string::npos) r.tag("tsan_report");
  return r;
}
int main(int argc, char **argv) { return vf_main<Case>(argc, argv, "C14", gen_case, run_case); }
