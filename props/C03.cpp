// C03 — reader iterators: seek then next yields the first entry >= target, from any state
#define VF_MAIN
#include "readcommon.h"
#include "../harness/refcodec.h"
using namespace vf;

struct Case {
  WConfig cfg;
  std::vector<SEntry> entries;
  std::vector<IterSpec> iters;
  std::vector<Op> ops;
  int enum_pairs = 0;  // 1: ignore ops; run every (position, target) pair of this table in one child
  bool valid() const {
    if (!cfg.null_opts && cfg.restart < 1) return false;
    if (cfg.comp < 0 || cfg.comp > 5 || cfg.pool > 16 || cfg.prefix_len < 0) return false;
    if (iters.empty() || iters.size() > 4) return false;
    for (auto &o : ops)
      if (o.it < 0 || o.it >= (int)iters.size()) return false;
    KVs kv = expand_entries(entries);
    for (size_t i = 1; i < kv.size(); i++)
      if (bcmp3(kv[i - 1].first, kv[i].first) >= 0) return false;
    return true;
  }
  std::string ser() const {
    Out o;
    o << "property C03\n" << cfg.ser() << "\n";
    if (enum_pairs) o << "enumpairs " << enum_pairs << "\n";
    for (size_t i = 0; i < iters.size(); i++) o << "iter " << i << " " << iters[i].ser() << "\n";
    ser_entries(o, entries);
    for (auto &op : ops) o << op.ser() << "\n";
    return o.str();
  }
  static Case parse(const std::string &text) {
    Case c;
    for (auto &row : Lines::parse(text).rows) {
      if (row[0] == "config") c.cfg = WConfig::parse(row);
      else if (row[0] == "entry") c.entries.push_back(parse_entry(row));
      else if (row[0] == "iter") c.iters.push_back(IterSpec::parse(row, 2));
      else if (row[0] == "op") c.ops.push_back(Op::parse(row));
      else if (row[0] == "enumpairs" && row.size() > 1) c.enum_pairs = atoi(row[1].c_str());
    }
    return c;
  }
};

static Case gen_case() {
  Case c;
  c.cfg = gen_config(/*many_blocks*/ chance(90), /*allow_pool*/ true);
  c.cfg.by_path = false;
  c.cfg.restart = one_of<int>({1, 2, 3, 4, 16, 16});
  KeyUniverse u = gen_universe();
  c.entries = gen_table(c.cfg.eff_block_size(), 6 + current_size(), /*allow_huge*/ false, &u);
  if (chance(3)) gen_big_values_in_big_blocks(c.cfg, c.entries);
  KVs kv = expand_entries(c.entries);
  int ni = weighted({66, 30, 4}) + 1;
  for (int i = 0; i < ni; i++) c.iters.push_back(gen_iter_spec(kv, u));
  c.ops = gen_ops(ni, 40, u);
  return c;
}

struct Opened {
  int fd = -1;
  struct mtbl_reader *rd = nullptr;
  RefTable m;
  std::vector<int> block_of;
  size_t nblocks = 0;
};
static bool open_table(const Case &c, Opened &o, Result &r) {
  o.m.e = expand_entries(c.entries);
  o.fd = write_table(c.cfg, o.m.e);
  if (o.fd < 0) {
    r.failf("writer failed");
    return false;
  }
  ref::DFile df = ref::decode_file(fd_contents(o.fd));
  if (df.err.empty()) {
    o.nblocks = df.data.size();
    for (size_t b = 0; b < df.data.size(); b++)
      for (size_t j = 0; j < df.data[b].entries.size(); j++) o.block_of.push_back((int)b);
  }
  if (o.block_of.size() != o.m.e.size()) o.block_of.assign(o.m.e.size(), 0);
  o.rd = open_reader_fd(o.fd, false, c.cfg.madvise);
  if (!o.rd) {
    r.failf("reader rejects a file the writer just produced");
    return false;
  }
  return true;
}

static void tag_hist(Result &r, const HistStats &hs, size_t nblocks) {
  r.nontrivial = hs.seek_after_block_cross || hs.backward_seek || hs.seek_to_last_returned;
  if (hs.seek_after_block_cross) r.tag("seek_after_next_crossed_block");
  if (hs.backward_seek) r.tag("backward_seek");
  if (hs.seek_to_last_returned) r.tag("seek_to_key_just_returned");
  if (hs.seek_after_exhaustion) r.tag("seek_after_failure");
  if (nblocks >= 2) r.tag("multi_block");
}

static Result run_case(const Case &c) {
  return run_isolated([&](Result &r) {
    Opened o;
    if (!open_table(c, o, r)) return;
    const struct mtbl_source *src = mtbl_reader_source(o.rd);
    if (!c.enum_pairs) {
      HistStats hs;
      std::string e = run_history(src, o.m, c.iters, c.ops, hs, ValueCmp(), &o.block_of);
      if (!e.empty()) r.failf("%s", e.c_str());
      tag_hist(r, hs, o.nblocks);
      if (c.iters.size() > 1) r.tag("two_iterators_interleaved");
      for (auto &s : c.iters) r.tag(std::string("kind_") + std::to_string(s.kind));
    } else {
      // every (iterator kind, position, target) triple: p x next; seek(t); next x 3
      size_t n = o.m.e.size();
      std::vector<IterSpec> specs;
      specs.push_back(IterSpec());
      auto add = [&](int kind, const bytes &a, const bytes &b) {
        IterSpec s;
        s.kind = kind;
        s.a = a;
        s.b = b;
        specs.push_back(s);
      };
      if (n) {
        const bytes &k0 = o.m.e[0].first, &km = o.m.e[n / 2].first, &kl = o.m.e[n - 1].first;
        add(1, km, bytes());
        add(1, key_pred(km), bytes());
        add(2, bytes(), bytes());
        add(2, km.substr(0, km.size() / 2), bytes());
        add(2, km.substr(0, km.size() > 0 ? km.size() - 1 : 0), bytes());
        add(3, k0, kl);
        add(3, o.m.e[n / 4].first, o.m.e[(3 * n) / 4].first);
        add(3, key_pred(km), key_succ(kl));
      }
      // adjacency set of targets
      std::set<bytes, BLess> tg;
      tg.insert(bytes());
      for (auto &kv : o.m.e) {
        tg.insert(kv.first);
        tg.insert(key_pred(kv.first));
        tg.insert(key_succ(kv.first));
      }
      if (n) tg.insert(o.m.e.back().first + bytes(1, (char)0xff));
      long long pairs = 0;
      for (auto &sp : specs) {
        size_t start = o.m.first_ge(sp.range_start());
        size_t avail = 0;
        while (start + avail < n && sp.in_bound(o.m.e[start + avail].first)) avail++;
        for (size_t p = 0; p <= avail + 1 && !r.fail; p++) {
          for (auto &t : tg) {
            if (bcmp3(t, sp.range_start()) < 0) continue;
            std::vector<Op> ops(p);  // p x next
            Op sk;
            sk.type = 2;
            sk.lit = t;
            ops.push_back(sk);
            for (int k = 0; k < 3; k++) ops.push_back(Op());
            HistStats hs;
            std::string e = run_history(src, o.m, {sp}, ops, hs, ValueCmp(), &o.block_of);
            pairs++;
            if (!e.empty()) {
              Case rc = c;
              rc.enum_pairs = 0;
              rc.iters = {sp};
              rc.ops = ops;
              r.failf("(position %zu, target %s) on %s: %s\n#REPRO\n%s", p, show(t).c_str(), sp.ser().c_str(), e.c_str(), rc.ser().c_str());
              break;
            }
          }
        }
        if (r.fail) break;
      }
      r.counters["seek_pairs_enumerated"] = pairs;
      r.nontrivial = o.nblocks >= 2;
      r.tag("enum_table");
      if (o.nblocks >= 2) r.tag("multi_block");
    }
    mtbl_reader_destroy(&o.rd);
    close(o.fd);
  }, c.enum_pairs ? 900 : 0);  // an enumeration case runs ~40 000 histories in one child
}

// deterministic family of small tables for the exhaustive (position, target) tier
static Case family_member(long long idx) {
  Case c;
  static const int Rs[] = {1, 2, 3, 4, 16};
  static const int Ns[] = {1, 2, 3, 5, 8, 13, 21, 30, 40};
  static const int Vs[] = {0, 60, 200, 500};
  static const int Cs[] = {0, 2, 1, 3, 5};
  c.cfg.restart = Rs[idx % 5];
  idx /= 5;
  int n = Ns[idx % 9];
  idx /= 9;
  int vlen = Vs[idx % 4];
  idx /= 4;
  int shape = (int)(idx % 3);
  idx /= 3;
  c.cfg.comp = Cs[idx % 5];
  c.cfg.block_size = 1024;
  std::map<bytes, BStr, BLess> m;
  for (int i = 0; i < n; i++) {
    bytes k;
    char buf[32];
    if (shape == 0) {
      snprintf(buf, sizeof buf, "k%03d", i * 3);
      k = buf;
    } else if (shape == 1) {  // nested prefixes over {a, b, 0xff}
      int x = i + 1;
      while (x) {
        k.push_back("ab\xff"[x % 3]);
        x /= 3;
      }
    } else {  // long shared prefix, short distinct tails, includes the empty key
      if (i) k = bytes(20, 'p') + bytes(1, (char)(i * 5));
    }
    BStr v;
    v.glen = (uint32_t)vlen;
    v.gseed = (uint32_t)i;
    m[k] = v;
  }
  for (auto &kv : m) {
    SEntry e;
    e.k = BStr::of(kv.first);
    e.v = kv.second;
    c.entries.push_back(e);
  }
  c.iters.push_back(IterSpec());
  c.enum_pairs = 1;
  return c;
}
static const long long FAMILY = 5 * 9 * 4 * 3 * 5;

static int extra_modes(const WorkerOpts &o, Stats &stats) {
  if (o.mode != "enum") return 2;
  long long per = o.geti("tables", 6);
  long long first = o.geti("offset", 0);
  for (long long i = 0; i < per; i++) {
    long long idx = (first + (long long)o.worker + i * o.nworkers) % FAMILY;
    // spread over the family: a stride co-prime with the family size visits distinct members
    idx = (idx * 7919 + (long long)(o.seed % 1000)) % FAMILY;
    Case c = family_member(idx);
    std::string s = c.ser();
    Result r = run_case(c);
    stats.add(s, r);
    if (r.fail) {
      size_t p = r.msg.find("#REPRO\n");
      std::string repro = p == std::string::npos ? s : r.msg.substr(p + 7);
      std::string msg = r.msg.substr(0, p);
      write_file(o.outdir + "/fail.case", repro);
      write_file(o.outdir + "/fail.msg", msg);
      return 1;
    }
  }
  return 0;
}

int main(int argc, char **argv) {
  g_history_enabled = true;  // process-history modes (harness/vf.h): prelude first / the case body twice in one process
  g_prelude_fn = table_prelude;
  return vf_main<Case>(argc, argv, "C03", gen_case, run_case, extra_modes);
}
