// C13 — pooled writers and sorters: same result under every interleaving, no hangs
// threadpool.c is compiled with its pthread calls routed to harness/vsched.h (the harness owns the schedule).
#define VF_MAIN
#include "mergecommon.h"
#include "../harness/vsched.h"
extern "C" {
#include "threadpool.h"
}
using namespace vf;

struct Case {
  int prog = 1;       // 1 raw pool API, 2 pooled writer, 3 pooled sorter, 4 two pooled writers sharing one pool from two caller threads
  int m = 1;          // pool size
  int n = 2;          // jobs per caller (prog 1) / blocks (prog 2) / chunks (prog 3)
  int ordered = 1;    // prog 1
  int callers = 1;    // prog 1: 1 or 2 caller threads, each with its own result handler, sharing the pool
  int action = 0;     // prog 3: 0 drain, 1 destroy immediately, 2 partial iteration then destroy; prog 2: compression type
  int warm = 0;       // prog 2: the pool is first used by another writer at a different explicit compression level (see execute)
  int max_preempt = 1000000;
  int max_spurious = 0;
  std::vector<int> tape;
  bool valid() const {
    return prog >= 1 && prog <= 4 && m >= 1 && m <= 8 && n >= 0 && n <= 12 && callers >= 1 && callers <= 2 && action >= 0 && action <= 5 && max_spurious >= 0 &&
           max_spurious <= 3 && tape.size() <= 4000;
  }
  std::string ser() const {
    Out o;
    o << "property C13\nprogram prog=" << prog << " m=" << m << " n=" << n << " ordered=" << ordered << " callers=" << callers << " action=" << action << " warm=" << warm
      << " max_preempt=" << max_preempt << " max_spurious=" << max_spurious << "\n";
    // the schedule: one line per 40 choices so that the shrinker can drop chunks
    for (size_t i = 0; i < tape.size(); i += 40) {
      o << "tape";
      for (size_t j = i; j < std::min(tape.size(), i + 40); j++) o << " " << tape[j];
      o << "\n";
    }
    return o.str();
  }
  static Case parse(const std::string &t) {
    Case c;
    for (auto &row : Lines::parse(t).rows) {
      if (row[0] == "program") {
        for (size_t i = 1; i < row.size(); i++) {
          size_t e = row[i].find('=');
          if (e == std::string::npos) continue;
          std::string k = row[i].substr(0, e);
          int v = atoi(row[i].c_str() + e + 1);
          if (k == "prog") c.prog = v;
          else if (k == "m") c.m = v;
          else if (k == "n") c.n = v;
          else if (k == "ordered") c.ordered = v;
          else if (k == "callers") c.callers = v;
          else if (k == "action") c.action = v;
          else if (k == "warm") c.warm = v ? 1 : 0;
          else if (k == "max_preempt") c.max_preempt = v;
          else if (k == "max_spurious") c.max_spurious = v;
        }
      } else if (row[0] == "tape")
        for (size_t i = 1; i < row.size(); i++) c.tape.push_back(atoi(row[i].c_str()));
    }
    return c;
  }
};

// ---------------------------------------------------------------- programs under test
struct Caller {
  struct threadpool *pool;
  int n, ordered;
  std::vector<int> log;
  int handlers_live = 0;
};
static void *job_cb(void *arg) { return arg; }
static void on_result(void *res, void *cbdata) { ((Caller *)cbdata)->log.push_back((int)(intptr_t)res); }
static void *caller_body(void *p) {
  Caller *c = (Caller *)p;
  struct result_handler *rh = result_handler_init(on_result, c);
  for (int i = 1; i <= c->n; i++) threadpool_dispatch(c->pool, rh, c->ordered != 0, job_cb, (void *)(intptr_t)i);
  result_handler_destroy(&rh);
  return nullptr;
}
static std::string check_log(const Caller &c, const char *who) {
  std::vector<int> l = c.log;
  if ((int)l.size() != c.n) return std::string(who) + ": " + std::to_string(l.size()) + " results delivered for " + std::to_string(c.n) + " jobs";
  if (c.ordered) {
    for (int i = 0; i < c.n; i++)
      if (l[(size_t)i] != i + 1) return std::string(who) + ": ordered delivery violated: result #" + std::to_string(i) + " is job " + std::to_string(l[(size_t)i]);
  } else {
    std::sort(l.begin(), l.end());
    for (int i = 0; i < c.n; i++)
      if (l[(size_t)i] != i + 1) return std::string(who) + ": results are not a permutation of the jobs (job " + std::to_string(i + 1) + " missing or duplicated)";
  }
  return "";
}

struct WJob {
  struct mtbl_threadpool *tp;
  int comp, blocks, salt;
  bytes out;
  bool refused = false;
};
static KVs writer_entries(int blocks);
static void *pooled_writer_body(void *p) {
  WJob *j = (WJob *)p;
  KVs kv = writer_entries(j->blocks);
  for (auto &e : kv) e.second[0] = (char)('A' + j->salt);
  struct mtbl_writer_options *wo = mtbl_writer_options_init();
  mtbl_writer_options_set_compression(wo, (mtbl_compression_type)j->comp);
  mtbl_writer_options_set_block_size(wo, 1024);
  mtbl_writer_options_set_threadpool(wo, j->tp);
  int fd = new_memfd("vf-c13w");
  struct mtbl_writer *w = mtbl_writer_init_fd(fd, wo);
  mtbl_writer_options_destroy(&wo);
  for (auto &e : kv)
    if (mtbl_writer_add(w, U(e.first), e.first.size(), U(e.second), e.second.size()) != mtbl_res_success) j->refused = true;
  mtbl_writer_destroy(&w);
  j->out = fd_contents(fd);
  close(fd);
  return nullptr;
}
static KVs writer_entries(int blocks) {
  KVs kv;
  for (int i = 0; i < blocks * 3; i++) {
    char k[16];
    snprintf(k, sizeof k, "w%03d", i);
    BStr v;
    v.glen = 300;
    v.gseed = (uint32_t)i;
    v.gkind = 2;
    kv.emplace_back(bytes(k), v.expand());
  }
  return kv;
}

// runs one execution under the given tape; returns "" or the violated clause.  Must be called in a child.
static std::string execute(const Case &c, std::vector<vs::Choice> *trace_out, long *points = nullptr, int *preempt_used = nullptr) {
  std::string err;
  // reference results computed without any pool (no pthread call is made)
  bytes ref_img;
  KVs wkv;
  if (c.prog == 2) {
    wkv = writer_entries(c.n);
    if (!c.warm) {
      WConfig wc;
      wc.comp = c.action % 6;
      wc.block_size = 1024;
      int rfd = write_table(wc, wkv);
      ref_img = fd_contents(rfd);
      close(rfd);  // one exploration child runs up to 150 000 executions: nothing may leak between them
    }
  }
  vs::begin(c.tape, c.max_preempt, c.max_spurious);
  int bound = 0;
  if (c.prog == 1) {
    struct threadpool *pool = threadpool_init((size_t)c.m);
    Caller a{pool, c.n, c.ordered, {}, 0}, b{pool, c.n > 0 ? c.n - 1 : 0, !c.ordered, {}, 0};
    pthread_t t2;
    if (c.callers == 2) vs_create(&t2, nullptr, caller_body, &b);
    caller_body(&a);
    if (c.callers == 2) vs_join(t2, nullptr);
    threadpool_destroy(&pool);
    err = check_log(a, "caller 1");
    if (err.empty() && c.callers == 2) err = check_log(b, "caller 2");
    bound = 1 + (c.callers - 1) + c.callers /*handlers*/ + c.m;
  } else if (c.prog == 2) {
    struct mtbl_threadpool *tp = mtbl_threadpool_init((size_t)c.m);
    if (c.warm) {
      // The same pool (its worker threads stay alive) first serves a writer at compression level 9; then the caller thread
      // writes the reference without a pool at level 1; then the measured pooled writer runs at level 1.  "Byte-identical
      // to the one written without a pool" must not depend on what the pool's threads did before.
      struct mtbl_writer_options *w0 = mtbl_writer_options_init();
      mtbl_writer_options_set_compression(w0, (mtbl_compression_type)(c.action % 6));
      mtbl_writer_options_set_compression_level(w0, 9);
      mtbl_writer_options_set_block_size(w0, 1024);
      mtbl_writer_options_set_threadpool(w0, tp);
      int fd0 = new_memfd("vf-c13-warm");
      struct mtbl_writer *ww = mtbl_writer_init_fd(fd0, w0);
      mtbl_writer_options_destroy(&w0);
      for (auto &kv : wkv)
        if (mtbl_writer_add(ww, U(kv.first), kv.first.size(), U(kv.second), kv.second.size()) != mtbl_res_success) err = "pooled writer refused an increasing key";
      mtbl_writer_destroy(&ww);
      close(fd0);
      WConfig wc;
      wc.comp = c.action % 6;
      wc.block_size = 1024;
      wc.level_set = true;
      wc.level = 1;
      int rfd = write_table(wc, wkv);  // no pool, no pthread call
      ref_img = fd_contents(rfd);
      close(rfd);
    }
    struct mtbl_writer_options *wo = mtbl_writer_options_init();
    mtbl_writer_options_set_compression(wo, (mtbl_compression_type)(c.action % 6));
    if (c.warm) mtbl_writer_options_set_compression_level(wo, 1);
    mtbl_writer_options_set_block_size(wo, 1024);
    mtbl_writer_options_set_threadpool(wo, tp);
    int fd = new_memfd("vf-c13");
    struct mtbl_writer *w = mtbl_writer_init_fd(fd, wo);
    mtbl_writer_options_destroy(&wo);
    for (auto &kv : wkv)
      if (mtbl_writer_add(w, U(kv.first), kv.first.size(), U(kv.second), kv.second.size()) != mtbl_res_success) err = "pooled writer refused an increasing key";
    mtbl_writer_destroy(&w);
    mtbl_threadpool_destroy(&tp);
    bytes img = fd_contents(fd);
    close(fd);
    if (err.empty() && img != ref_img) {
      size_t i = 0;
      while (i < img.size() && i < ref_img.size() && img[i] == ref_img[i]) i++;
      err = "file written with a pool differs from the file written without one (first difference at offset " + std::to_string(i) + " of " + std::to_string(ref_img.size()) + ")";
    }
    bound = 1 + 1 + c.m;
  } else if (c.prog == 4) {
    // reference outputs without a pool were computed by the caller of execute() (see below)
    struct mtbl_threadpool *tp = mtbl_threadpool_init((size_t)c.m);
    WJob a{tp, c.action % 6, c.n, 0, bytes(), false}, b{tp, c.action % 6, c.n > 1 ? c.n - 1 : 1, 1, bytes(), false};
    pthread_t t2;
    vs_create(&t2, nullptr, pooled_writer_body, &b);
    pooled_writer_body(&a);
    vs_join(t2, nullptr);
    mtbl_threadpool_destroy(&tp);
    for (WJob *j : {&a, &b}) {
      KVs kv = writer_entries(j->blocks);
      for (auto &e : kv) e.second[0] = (char)('A' + j->salt);
      WConfig wc;
      wc.comp = j->comp;
      wc.block_size = 1024;
      // the un-pooled reference writer makes no pthread call, so it may run while the scheduler is active
      int rfd = write_table(wc, kv);
      bytes want = fd_contents(rfd);
      close(rfd);
      if (j->refused) err = "pooled writer refused an increasing key";
      else if (j->out != want && err.empty()) err = std::string("writer ") + (j->salt ? "2" : "1") + " sharing the pool: output differs from the un-pooled writer's";
    }
    bound = 2 + 2 + c.m;
  } else {
    ensure_tmpdir();
    std::string tdir = g_tmpdir + "/c13-" + std::to_string(getpid());
    mkdir(tdir.c_str(), 0700);
    struct mtbl_threadpool *tp = mtbl_threadpool_init((size_t)c.m);
    MergeClos mc;
    mc.keep_log = false;
    struct mtbl_sorter_options *so = mtbl_sorter_options_init();
    mtbl_sorter_options_set_temp_dir(so, tdir.c_str());
    mtbl_sorter_options_set_max_memory(so, 60);  // two small entries per chunk
    mtbl_sorter_options_set_merge_func(so, concat_merge, &mc);
    mtbl_sorter_options_set_threadpool(so, tp);
    struct mtbl_sorter *s = mtbl_sorter_init(so);
    mtbl_sorter_options_destroy(&so);
    std::map<bytes, bytes, BLess> model;
    for (int i = 0; i < c.n * 2; i++) {
      char k[8];
      snprintf(k, sizeof k, "s%d", (i * 5) % 7);
      bytes v = token(0, i);
      model[bytes(k)] += v;
      if (mtbl_sorter_add(s, (const uint8_t *)k, strlen(k), U(v), v.size()) != mtbl_res_success) err = "pooled sorter add failed";
    }
    if (c.action % 3 != 1) {
      struct mtbl_iter *it = mtbl_sorter_iter(s);
      if (!it) err = "mtbl_sorter_iter returned NULL";
      else {
        KVs got = drain(it, c.action % 3 == 2 ? 2 : (size_t)-1);
        if (c.action % 3 == 0) {
          size_t i = 0;
          if (got.size() != model.size()) err = "pooled sorter produced " + std::to_string(got.size()) + " entries, expected " + std::to_string(model.size());
          for (auto &kv : model) {
            if (!err.empty() || i >= got.size()) break;
            if (got[i].first != kv.first || !token_multiset_eq(got[i].second, kv.second)) err = "pooled sorter output differs from the model at entry " + std::to_string(i);
            i++;
          }
        }
        mtbl_iter_destroy(&it);
      }
    }
    mtbl_sorter_destroy(&s);
    mtbl_threadpool_destroy(&tp);
    rm_rf(tdir);
    bound = 1 + 1 + c.m;
  }
  std::string e2 = vs::end();
  if (err.empty()) err = e2;
  if (err.empty() && vs::S->max_live > bound)
    err = "more threads alive at once (" + std::to_string(vs::S->max_live) + ") than callers + result handlers + the pool's maximum (" + std::to_string(bound) + ")";
  if (trace_out) *trace_out = vs::S->trace;
  if (points) *points = vs::S->sched_points;
  if (preempt_used) *preempt_used = vs::S->preemptions;
  vs::dispose();
  return err;
}

static Result run_case(const Case &c) {
  Result r;
  ChildRun cr = run_child([&](int fd) {
    std::vector<vs::Choice> tr;
    long pts = 0;
    int pre = 0;
    std::string e = execute(c, &tr, &pts, &pre);
    char b[128];
    snprintf(b, sizeof b, "points %ld preempt %d choices %zu\n", pts, pre, tr.size());
    write_all_fd(fd, std::string(b) + (e.empty() ? "OK\n" : "BAD " + e + "\n"));
  });
  long pts = 0, choices = 0;
  int pre = 0;
  sscanf(cr.payload.c_str(), "points %ld preempt %d choices %ld", &pts, &pre, &choices);
  size_t bad = cr.payload.find("BAD ");
  if (cr.timed_out) r.failf("TIMEOUT (a hang that the scheduler did not classify as deadlock): %s", cr.describe().c_str());
  else if (bad != std::string::npos) r.failf("%s", cr.payload.substr(bad + 4).c_str());
  else if (!cr.clean()) {
    size_t p = cr.err.find("VSCHED-VIOLATION ");
    if (p != std::string::npos) r.failf("%s", cr.err.substr(p + 17, 600).c_str());
    else r.failf("execution died: %s", cr.describe().c_str());
  }
  r.nontrivial = pre > 0 || c.max_spurious > 0;
  r.tag("prog_" + std::to_string(c.prog));
  if (pre > 0) r.tag("preempted");
  if (pre >= 3) r.tag("preemptions_ge3");
  if (c.callers == 2 || c.prog == 4) r.tag("two_callers_sharing_pool");
  if (c.prog == 1 && !c.ordered) r.tag("unordered");
  if (c.prog == 1 && c.n > c.m) r.tag("pool_saturated");
  if (c.max_spurious) r.tag("spurious_wakeups_allowed");
  if (c.warm && c.prog == 2) r.tag("pool_served_another_compression_level_before");
  r.counters["scheduling_points"] = pts;
  return r;
}

static Case gen_case() {
  Case c;
  c.prog = weighted({42, 22, 22, 14}) + 1;
  c.m = weighted({40, 35, 15, 10}) + 1;
  c.n = c.prog == 1 ? pick(0, 6) : c.prog == 2 ? pick(1, 6) : c.prog == 3 ? pick(1, 5) : pick(1, 4);
  c.ordered = chance(55);
  c.callers = c.prog == 1 && chance(40) ? 2 : 1;
  c.action = pick(0, 5);
  c.warm = c.prog == 2 && chance(30);
  c.max_spurious = weighted({55, 25, 20});
  int len = pick(0, 400);
  // mostly "keep running" (0) with bursts of other choices: schedules with few preemptions at random places
  int density = one_of<int>({2, 5, 15, 40, 100});
  for (int i = 0; i < len; i++) c.tape.push_back(pick(0, 99) < density ? pick(1, 5) : 0);
  return c;
}

// ---------------------------------------------------------------- bounded exhaustive exploration (depth-first re-execution)
static int extra_modes(const WorkerOpts &o, Stats &stats) {
  if (o.mode != "dfs") return 2;
  int bound = (int)o.geti("bound", 1);
  long cap = o.geti("cap", 30000);
  // program family; worker w takes members w, w+W, ...
  std::vector<Case> fam;
  for (int prog = 1; prog <= 4; prog++)
    for (int m = 1; m <= 2; m++)
      for (int n = (prog == 1 ? 0 : 1); n <= (prog == 4 ? 2 : 3); n++)
        for (int var = 0; var < (prog == 1 ? 4 : prog == 3 ? 3 : 1); var++) {
          Case c;
          c.prog = prog;
          c.m = m;
          c.n = n;
          c.ordered = var & 1;
          c.callers = prog == 1 && (var & 2) ? 2 : 1;
          c.action = prog == 3 ? var : 0;
          c.max_preempt = bound;
          c.max_spurious = 0;
          fam.push_back(c);
        }
  long sel = o.geti("members", 1000);
  long taken = 0;
  for (size_t fi = (size_t)o.worker; fi < fam.size() && taken < sel; fi += (size_t)o.nworkers, taken++) {
    Case base = fam[(fi + (size_t)(o.seed % 7) * 3) % fam.size()];
    std::string failmsg, failcase;
    long execs = 0;
    bool complete = false;
    ChildRun cr = run_child([&](int fd) {
      std::vector<int> prefix;
      long n = 0;
      for (;;) {
        Case c = base;
        c.tape = prefix;
        // announce before running so that a deadlock/assert (which exits the child) can be attributed
        write_all_fd(fd, "RUN " + std::to_string(prefix.size()));
        std::string ts;
        for (int v : prefix) ts += " " + std::to_string(v);
        write_all_fd(fd, ts + "\n");
        std::vector<vs::Choice> tr;
        std::string e = execute(c, &tr);
        n++;
        if (!e.empty()) {
          write_all_fd(fd, "BAD " + e + "\n");
          return;
        }
        // next schedule: deepest choice point with an untried alternative
        long i = (long)tr.size() - 1;
        while (i >= 0 && tr[(size_t)i].picked + 1 >= tr[(size_t)i].n) i--;
        if (i < 0) {
          write_all_fd(fd, "COMPLETE " + std::to_string(n) + "\n");
          return;
        }
        prefix.clear();
        for (long j = 0; j < i; j++) prefix.push_back(tr[(size_t)j].picked);
        prefix.push_back(tr[(size_t)i].picked + 1);
        if (n >= cap) {
          write_all_fd(fd, "CAPPED " + std::to_string(n) + "\n");
          return;
        }
      }
    }, 1800);
    // parse
    std::istringstream in(cr.payload);
    std::string l, lastrun;
    while (std::getline(in, l)) {
      if (l.rfind("RUN ", 0) == 0) {
        lastrun = l;
        execs++;
      } else if (l.rfind("BAD ", 0) == 0) failmsg = l.substr(4);
      else if (l.rfind("COMPLETE ", 0) == 0) complete = true;
    }
    Case fc = base;
    {
      std::istringstream ls(lastrun);
      std::string w;
      ls >> w >> w;
      int v;
      while (ls >> v) fc.tape.push_back(v);
    }
    if (failmsg.empty() && !cr.clean()) {
      size_t p = cr.err.find("VSCHED-VIOLATION ");
      failmsg = p != std::string::npos ? cr.err.substr(p + 17, 600) : "exploration child died: " + cr.describe();
    }
    Result r;
    r.nontrivial = true;
    r.tag("dfs_program");
    r.tag(complete ? "dfs_complete" : "dfs_capped");
    r.counters["schedules_explored"] = execs;
    if (!failmsg.empty()) {
      r.failf("%s", failmsg.c_str());
      stats.add(fc.ser(), r);
      write_file(o.outdir + "/fail.case", fc.ser());
      write_file(o.outdir + "/fail.msg", failmsg);
      return 1;
    }
    stats.add(base.ser() + "# all schedules with <= " + std::to_string(bound) + " preemptions: " + std::to_string(execs) + (complete ? " (complete)" : " (capped)") + "\n", r);
    stats.evaluations += execs - 1;
    stats.counters["bulk_distinct_nontrivial"] += execs - 1;
  }
  return 0;
}

int main(int argc, char **argv) { return vf_main<Case>(argc, argv, "C13", gen_case, run_case, extra_modes); }
