// Shared by props/C19.cpp and fuzz/fuzz_open.cpp: base files, field mutations, the open-under-assertion-recovery primitive
// and the byte-level decoding of a libFuzzer input into (base file, mutations, flags).
#pragma once
#include "../harness/refcodec.h"
using namespace vf;

struct Mut {
  int kind = 0;  // 0 truncate to v; 1 index_block_offset=v; 2 magic=v; 3 index length prefix=v; 4 index num_restarts=v;
                 // 5 patch byte at offset v to value b; 6 trailer field #b = v; 7 append v zero bytes before the trailer (shifts nothing, grows file)
                 // 8 two trailer fields changed TOGETHER so that a consistency check relating them still balances: field A = b%9 is
                 //   set to v and field G = (b/9)%9 is adjusted so that A+G (mode (b/81)%2 == 0) or G-A (mode 1) keeps its old value mod 2^64
  uint64_t v = 0;
  int b = 0;
};
struct Case {
  int base = 0;
  std::vector<Mut> muts;
  int verify = 0;
  int by_path = 0;
  bytes raw;  // when base == -1: the whole file content literally
  bytes fuzz; // when non-empty: a libFuzzer input; decoded by decode_fuzz() into the fields above
  bool valid() const { return base >= -1 && base < 19 && muts.size() <= 8 && raw.size() <= (1u << 20); }
  std::string ser() const {
    Out o;
    o << "property C19\nfile base=" << base << " verify=" << verify << " by_path=" << by_path << "\n";
    if (!fuzz.empty()) {
      o << "fuzz " << hex(fuzz) << "\n";
      return o.str();
    }
    if (base == -1) o << "raw " << (raw.empty() ? "-" : hex(raw)) << "\n";
    for (auto &m : muts) o << "mut " << m.kind << " " << m.v << " " << m.b << "\n";
    return o.str();
  }
  static Case parse(const std::string &t) {
    Case c;
    for (auto &row : Lines::parse(t).rows) {
      if (row[0] == "file") {
        for (size_t i = 1; i < row.size(); i++) {
          size_t e = row[i].find('=');
          if (e == std::string::npos) continue;
          std::string k = row[i].substr(0, e);
          int v = atoi(row[i].c_str() + e + 1);
          if (k == "base") c.base = v;
          else if (k == "verify") c.verify = v;
          else if (k == "by_path") c.by_path = v;
        }
      } else if (row[0] == "fuzz" && row.size() > 1) c.fuzz = unhex(row[1]);
      else if (row[0] == "raw" && row.size() > 1) c.raw = row[1] == "-" ? bytes() : unhex(row[1]);
      else if (row[0] == "mut" && row.size() >= 3) {
        Mut m;
        m.kind = atoi(row[1].c_str());
        m.v = toull(row[2]);
        m.b = row.size() > 3 ? atoi(row[3].c_str()) : 0;
        c.muts.push_back(m);
      }
    }
    return c;
  }
};

// ---------------------------------------------------------------- base files (deterministic)
static KVs base_entries(int n, int vlen, const char *pfx) {
  KVs kv;
  for (int i = 0; i < n; i++) {
    char k[64];
    snprintf(k, sizeof k, "%s%04d", pfx, i * 7);
    BStr v;
    v.glen = (uint32_t)vlen;
    v.gseed = (uint32_t)i;
    kv.emplace_back(bytes(k), v.expand());
  }
  return kv;
}
static bytes ref_file(int version, int algo, const KVs &kv, size_t per_block, const bytes &prefix) {
  ref::EFile f;
  f.version = version;
  f.algo = algo;
  f.prefix = prefix;
  for (size_t i = 0; i < kv.size(); i += per_block) {
    ref::EBlock b;
    for (size_t j = i; j < std::min(kv.size(), i + per_block); j++) {
      ref::EEntry e;
      e.key = kv[j].first;
      e.val = kv[j].second;
      b.entries.push_back(e);
    }
    for (size_t j = 0; j < b.entries.size(); j += 3) b.restart_at.push_back(j);
    b.separator = b.entries.back().key;
    f.blocks.push_back(b);
  }
  return ref::encode_file(f);
}
static const int NBASE = 19;
static bytes make_base(int id) {
  WConfig c;
  c.block_size = 1024;
  switch (id) {
    case 0: c.comp = 0; return fd_contents(write_table(c, base_entries(3, 5, "k")));
    case 1: c.comp = 2; return fd_contents(write_table(c, base_entries(40, 150, "key")));
    case 2: c.comp = 0; return fd_contents(write_table(c, KVs()));
    case 3: c.comp = 0; c.prefix_len = 13; c.prefix_seed = 3; return fd_contents(write_table(c, base_entries(10, 30, "p")));
    case 4: return ref_file(1, ref::NONE, base_entries(9, 20, "v1"), 5, bytes());
    case 5: return ref_file(1, ref::ZLIB, base_entries(12, 90, "z"), 4, bytes("FOREIGN-PREFIX-BYTES"));
    case 6: c.comp = 3; return fd_contents(write_table(c, base_entries(30, 200, "lz")));
    case 7: return ref_file(2, ref::NONE, base_entries(60, 10, "m"), 3, bytes());
    case 8: c.comp = 1; c.restart = 1; return fd_contents(write_table(c, base_entries(25, 100, "s")));
    case 9: return ref_file(1, ref::NONE, KVs(), 1, bytes());
    case 10: c.comp = 5; c.prefix_len = 512; return fd_contents(write_table(c, base_entries(8, 400, "zs")));
    case 11: c.comp = 0; c.restart = 2; return fd_contents(write_table(c, base_entries(200, 3, "")));
    default: {
      // files that are little more than a trailer: 512..528 bytes of zeros with a valid magic (the writer's smallest table
      // is 525 bytes; these sit at and below the minimum the reader has to reject or survive)
      static const int sizes[] = {512, 520, 524, 525, 512, 527, 528};
      int k = (id - 12) % 7;
      bytes b((size_t)sizes[k], '\0');
      uint32_t magic = k < 4 ? ref::MAGIC_V2 : ref::MAGIC_V1;
      for (int i = 0; i < 4; i++) b[b.size() - 4 + (size_t)i] = (char)((magic >> (8 * i)) & 0xff);
      return b;
    }
  }
}
static void put_le(bytes &img, size_t off, uint64_t v, int n) {
  for (int i = 0; i < n && off + (size_t)i < img.size(); i++) img[off + (size_t)i] = (char)((v >> (8 * i)) & 0xff);
}
static void apply_mut(bytes &img, const Mut &m) {
  if (img.size() < 512 && m.kind != 0 && m.kind != 5) return;
  size_t t = img.size() >= 512 ? img.size() - 512 : 0;
  switch (m.kind) {
    case 0:
      if (m.v < img.size()) img.resize((size_t)m.v);
      break;
    case 1: put_le(img, t, m.v, 8); break;
    case 2: put_le(img, t + 508, m.v, 4); break;
    case 3: {  // index length prefix (varint for v2, fixed32 for v1)
      uint64_t ioff = ref::get_le64((const uint8_t *)img.data() + t);
      uint32_t magic = ref::get_le32((const uint8_t *)img.data() + t + 508);
      if (ioff >= img.size()) break;
      if (magic == ref::MAGIC_V1) put_le(img, (size_t)ioff, m.v, 4);
      else {
        bytes vb = ref::varint_bytes(m.v);
        for (size_t i = 0; i < vb.size() && ioff + i < img.size(); i++) img[(size_t)ioff + i] = vb[i];
      }
      break;
    }
    case 4: {  // num_restarts word of the index block = last 4 bytes before the trailer
      if (t >= 4) put_le(img, t - 4, m.v, 4);
      break;
    }
    case 5:
      if (m.v < img.size()) img[(size_t)m.v] = (char)m.b;
      break;
    case 6:
      if (m.b >= 0 && m.b < 9) put_le(img, t + 8 * (size_t)m.b, m.v, 8);
      break;
    case 7: {
      size_t n = (size_t)std::min<uint64_t>(m.v, 4096);
      img.insert(t, bytes(n, '\0'));
      break;
    }
    case 8: {
      int a = m.b % 9, g = (m.b / 9) % 9, mode = (m.b / 81) % 2;
      if (m.b < 0 || a == g) break;
      uint64_t oa = ref::get_le64((const uint8_t *)img.data() + t + 8 * (size_t)a), og = ref::get_le64((const uint8_t *)img.data() + t + 8 * (size_t)g);
      uint64_t ng = mode == 0 ? oa + og - m.v : og + (m.v - oa);
      put_le(img, t + 8 * (size_t)a, m.v, 8);
      put_le(img, t + 8 * (size_t)g, ng, 8);
      break;
    }
  }
}

// opens the image; returns 0 NULL, 1 reader, 2 assertion stop (recovered)
static int try_open(const bytes &img, int verify, int by_path) {
  int fd = fd_from_bytes(img);
  struct mtbl_reader_options *ro = mtbl_reader_options_init();
  mtbl_reader_options_set_verify_checksums(ro, verify != 0);
  struct mtbl_reader *rd = nullptr;
  int outcome;
  vf_assert_armed = 1;
  if (sigsetjmp(vf_assert_jmp, 1) == 0) {
    if (by_path) {
      std::string p = "/proc/self/fd/" + std::to_string(fd);
      rd = mtbl_reader_init(p.c_str(), ro);
    } else rd = mtbl_reader_init_fd(fd, ro);
    vf_assert_armed = 0;
    outcome = rd ? 1 : 0;
    if (rd) mtbl_reader_destroy(&rd);
  } else {
    outcome = 2;  // stopped on a checksum/consistency assertion: allowed
  }
  mtbl_reader_options_destroy(&ro);
  close(fd);
  return outcome;
}

static bool gate_passed(const bytes &img) {
  if (img.size() < 512) return false;
  uint32_t magic = ref::get_le32((const uint8_t *)img.data() + img.size() - 4);
  return magic == ref::MAGIC_V1 || magic == ref::MAGIC_V2;
}


// libFuzzer input layout: [selector][flags] then either mutation records (10 bytes each: kind, 8-byte LE value, b)
// or, for selector 0xff, the raw file content.
static Case decode_fuzz(const uint8_t *d, size_t n) {
  Case c;
  if (n < 2) {
    c.base = -1;
    return c;
  }
  c.verify = d[1] & 1;
  c.by_path = (d[1] >> 1) & 1;
  if (d[0] == 0xff) {
    c.base = -1;
    c.raw.assign((const char *)d + 2, n - 2);
    return c;
  }
  c.base = d[0] % NBASE;
  for (size_t p = 2; p + 10 <= n && c.muts.size() < 6; p += 10) {
    Mut m;
    m.kind = d[p] % 9;
    m.v = ref::get_le64(d + p + 1);
    m.b = d[p + 9];
    if (m.kind == 5) m.v %= 8192;
    if (m.kind == 6) m.b %= 9;
    if (m.kind == 8) m.b %= 162;
    c.muts.push_back(m);
  }
  return c;
}
static bytes materialise(const Case &c0) {
  Case c = c0.fuzz.empty() ? c0 : decode_fuzz((const uint8_t *)c0.fuzz.data(), c0.fuzz.size());
  bytes img = c.base == -1 ? c.raw : make_base(c.base);
  for (auto &m : c.muts) apply_mut(img, m);
  return img;
}
