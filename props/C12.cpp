// C12 — checksums: intact files verify, damaged blocks are never accepted (fault enumeration)
#define VF_MAIN
#include "../harness/refcodec.h"
#include "../harness/tools.h"
using namespace vf;

struct Case {
  WConfig cfg;
  std::vector<SEntry> entries;
  int block = 0;               // target: data block index, or == number of data blocks for the index block (taken modulo nblocks+1)
  std::vector<long> bits;      // bit offsets (modulo region size in bits) inside [CRC field (32 bits) | stored bytes]
  int burst_len = 0;           // when > 0: a burst starting at bits[0] of this many bits, both end bits flipped, interior from burst_mask
  uint32_t burst_mask = 0;
  int exec_tool = 0;
  int check_intact = 0;
  bool valid() const {
    if (!cfg.null_opts && cfg.restart < 1) return false;
    if (cfg.comp < 0 || cfg.comp > 5 || cfg.pool > 16 || cfg.prefix_len < 0) return false;
    if (bits.empty() || bits.size() > 3 || burst_len < 0 || burst_len > 32 || burst_len == 1) return false;
    for (long b : bits)
      if (b < 0) return false;
    KVs kv = expand_entries(entries);
    if (kv.empty()) return true;
    for (size_t i = 1; i < kv.size(); i++)
      if (bcmp3(kv[i - 1].first, kv[i].first) >= 0) return false;
    return true;
  }
  std::string ser() const {
    Out o;
    o << "property C12\n" << cfg.ser() << "\n";
    o << "fault block=" << block << " burst_len=" << burst_len << " burst_mask=" << burst_mask << " exec=" << exec_tool << " intact=" << check_intact;
    for (long b : bits) o << " bit=" << b;
    o << "\n";
    ser_entries(o, entries);
    return o.str();
  }
  static Case parse(const std::string &t) {
    Case c;
    for (auto &row : Lines::parse(t).rows) {
      if (row[0] == "config") c.cfg = WConfig::parse(row);
      else if (row[0] == "entry") c.entries.push_back(parse_entry(row));
      else if (row[0] == "fault") {
        for (size_t i = 1; i < row.size(); i++) {
          size_t e = row[i].find('=');
          if (e == std::string::npos) continue;
          std::string k = row[i].substr(0, e);
          long long v = atoll(row[i].c_str() + e + 1);
          if (k == "block") c.block = (int)v;
          else if (k == "burst_len") c.burst_len = (int)v;
          else if (k == "burst_mask") c.burst_mask = (uint32_t)v;
          else if (k == "exec") c.exec_tool = (int)v;
          else if (k == "intact") c.check_intact = (int)v;
          else if (k == "bit") c.bits.push_back((long)v);
        }
      }
    }
    return c;
  }
};

// region of block b: [crc field 4 bytes][stored bytes]; returns file offset of the region and its size in bytes
static void region_of(const ref::DBlock &b, uint64_t &off, uint64_t &len) {
  off = b.offset + b.len_prefix;
  len = 4 + b.stored_len;
}
// applies the corruption; returns a description. Guarantees that at least one bit changes.
static std::string corrupt(bytes &img, const ref::DFile &df, const Case &c, int &target_block) {
  int nb = (int)df.data.size();
  target_block = ((c.block % (nb + 1)) + (nb + 1)) % (nb + 1);
  const ref::DBlock &b = target_block == nb ? df.index : df.data[(size_t)target_block];
  uint64_t off, len;
  region_of(b, off, len);
  uint64_t nbits = len * 8;
  std::set<uint64_t> flips;
  if (c.burst_len >= 2) {
    uint64_t start = (uint64_t)c.bits[0] % nbits;
    uint64_t L = (uint64_t)c.burst_len;
    if (start + L > nbits) start = nbits - L;
    flips.insert(start);
    flips.insert(start + L - 1);
    for (uint64_t i = 1; i + 1 < L; i++)
      if ((c.burst_mask >> (i - 1)) & 1) flips.insert(start + i);
  } else {
    for (long bt : c.bits) {
      uint64_t p = (uint64_t)bt % nbits;
      while (flips.count(p)) p = (p + 1) % nbits;  // distinct positions: 1-3 bit flips
      flips.insert(p);
    }
  }
  for (uint64_t p : flips) img[(size_t)(off + p / 8)] ^= (char)(1u << (p % 8));
  return "block " + std::to_string(target_block) + (target_block == nb ? " (index)" : "") + ", " + std::to_string(flips.size()) + " bit(s) flipped in its checksum+payload region";
}

// ---- observers (each runs in its own child, or in-process with assertion recovery in the enumerator)
// drains with verification; writes one line per entry "e <hexkey> <hexval>" to fd and "END" when the iterator ends normally
static void drain_verify(const bytes &img, int out_fd) {
  int fd = fd_from_bytes(img);
  struct mtbl_reader *rd = open_reader_fd(fd, /*verify*/ true);
  if (!rd) {
    write_all_fd(out_fd, "NULLREADER\n");
    return;
  }
  struct mtbl_iter *it = mtbl_source_iter(mtbl_reader_source(rd));
  const uint8_t *k, *v;
  size_t lk, lv;
  while (it && mtbl_iter_next(it, &k, &lk, &v, &lv) == mtbl_res_success)
    write_all_fd(out_fd, "e " + hex(bytes((const char *)k, lk)) + " " + hex(bytes((const char *)v, lv)) + "\n");
  write_all_fd(out_fd, "END\n");
  if (it) mtbl_iter_destroy(&it);
  mtbl_reader_destroy(&rd);
  close(fd);
}
static void get_verify(const bytes &img, const bytes &key, int out_fd) {
  int fd = fd_from_bytes(img);
  struct mtbl_reader *rd = open_reader_fd(fd, true);
  if (!rd) {
    write_all_fd(out_fd, "NULLREADER\n");
    return;
  }
  struct mtbl_iter *it = mtbl_source_get(mtbl_reader_source(rd), U(key), key.size());
  const uint8_t *k, *v;
  size_t lk, lv;
  while (it && mtbl_iter_next(it, &k, &lk, &v, &lv) == mtbl_res_success)
    write_all_fd(out_fd, "e " + hex(bytes((const char *)k, lk)) + " " + hex(bytes((const char *)v, lv)) + "\n");
  write_all_fd(out_fd, "END\n");
  if (it) mtbl_iter_destroy(&it);
  mtbl_reader_destroy(&rd);
  close(fd);
}

// one iterator: position it beyond the damaged block first (forward seek / range start), read there, then seek back
// into the damaged block and read.  Lines: "e key val" per entry, "SEEKBACK" before the backward seek, "END" at the end.
static void seek_back_verify(const bytes &img, const bytes &later_key, const bytes &damaged_key, int variant, int out_fd) {
  int fd = fd_from_bytes(img);
  struct mtbl_reader *rd = open_reader_fd(fd, true);
  if (!rd) {
    write_all_fd(out_fd, "NULLREADER\n");
    return;
  }
  const struct mtbl_source *src = mtbl_reader_source(rd);
  bytes hi = later_key + bytes(3, (char)0xff);
  struct mtbl_iter *it = variant == 0 ? mtbl_source_iter(src) : variant == 1 ? mtbl_source_get_range(src, U(later_key), later_key.size(), U(hi), hi.size())
                                                                            : mtbl_source_get_prefix(src, U(bytes()), 0);
  const uint8_t *k, *v;
  size_t lk, lv;
  auto emit = [&]() {
    if (it && mtbl_iter_next(it, &k, &lk, &v, &lv) == mtbl_res_success)
      write_all_fd(out_fd, "e " + hex(bytes((const char *)k, lk)) + " " + hex(bytes((const char *)v, lv)) + "\n");
  };
  if (variant != 1 && it) (void)mtbl_iter_seek(it, U(later_key), later_key.size());
  emit();
  write_all_fd(out_fd, "SEEKBACK\n");
  if (it) (void)mtbl_iter_seek(it, U(damaged_key), damaged_key.size());
  emit();
  emit();
  write_all_fd(out_fd, "END\n");
  if (it) mtbl_iter_destroy(&it);
  mtbl_reader_destroy(&rd);
  close(fd);
}

// one process, two readers one after the other: the intact file is opened with verification, the block that will be damaged is
// fetched (it is the last block this process verified), the reader is destroyed; then the damaged copy - same length, so its
// mapping usually lands at the same address - is opened with verification and the same block is the first one fetched.
// Whatever the first reader verified says nothing about the second file.  Lines: "e ..." per entry, "SECOND" before the
// second reader, "END".
static void reopen_verify(const bytes &good, const bytes &bad, const bytes &key, int out_fd) {
  for (int round = 0; round < 2; round++) {
    int fd = fd_from_bytes(round == 0 ? good : bad);
    struct mtbl_reader *rd = open_reader_fd(fd, true);
    if (round == 1) write_all_fd(out_fd, "SECOND\n");
    if (!rd) {
      write_all_fd(out_fd, "NULLREADER\n");
      close(fd);
      if (round == 0) continue;
      return;
    }
    struct mtbl_iter *it = mtbl_source_get(mtbl_reader_source(rd), U(key), key.size());
    const uint8_t *k, *v;
    size_t lk, lv;
    while (it && mtbl_iter_next(it, &k, &lk, &v, &lv) == mtbl_res_success)
      write_all_fd(out_fd, "e " + hex(bytes((const char *)k, lk)) + " " + hex(bytes((const char *)v, lv)) + "\n");
    if (it) mtbl_iter_destroy(&it);
    mtbl_reader_destroy(&rd);
    close(fd);
  }
  write_all_fd(out_fd, "END\n");
}

static std::string judge_drain(const ChildRun &cr, const KVs &orig, size_t allowed, const char *what) {
  if (cr.timed_out) return std::string(what) + ": timed out";
  if (cr.sanitizer()) return std::string(what) + ": sanitizer report: " + cr.describe();
  std::istringstream in(cr.payload);
  std::string l;
  size_t n = 0;
  bool ended = false;
  while (std::getline(in, l)) {
    if (l == "END") ended = true;
    else if (l == "NULLREADER") return "";  // refusing to open is also 'not accepting'
    else if (l.rfind("e ", 0) == 0) {
      size_t sp = l.find(' ', 2);
      bytes k = unhex(l.substr(2, sp - 2)), v = unhex(l.substr(sp + 1));
      if (n >= allowed) return std::string(what) + ": returned entry #" + std::to_string(n) + " key " + show(k) + " although only the " + std::to_string(allowed) + " entries of the blocks before the damaged one may be returned";
      if (n >= orig.size() || orig[n].first != k || orig[n].second != v) return std::string(what) + ": entry #" + std::to_string(n) + " differs from the original";
      n++;
    }
  }
  if (ended || cr.clean()) return std::string(what) + ": the reader with verify_checksums reached the end normally (returned " + std::to_string(n) + " entries) although a block is damaged";
  return "";
}

static Result run_case(const Case &c) {
  Result r;
  KVs kv = expand_entries(c.entries);
  // child 0: build the intact file and hand the image back
  bytes img;
  {
    ChildRun cr = run_child([&](int fd) { write_all_fd(fd, fd_contents(write_table(c.cfg, kv))); });
    if (!cr.clean()) {
      r.failf("writer died: %s", cr.describe().c_str());
      return r;
    }
    img = cr.payload;
  }
  ref::DFile df = ref::decode_file(img);
  if (!df.err.empty()) {
    r.failf("independent decoder rejects the written file: %s", df.err.c_str());
    return r;
  }
  bytes bad = img;
  int tb = 0;
  std::string what = corrupt(bad, df, c, tb);
  int nb = (int)df.data.size();
  size_t allowed = 0;
  for (int i = 0; i < tb && i < nb; i++) allowed += df.data[(size_t)i].entries.size();
  if (tb == nb) allowed = 0;  // index damaged: nothing may be returned
  // (b) iteration
  ChildRun c1 = run_child([&](int fd) { drain_verify(bad, fd); });
  std::string e = judge_drain(c1, kv, allowed, "iteration with verify_checksums");
  if (!e.empty()) r.failf("%s [%s]", e.c_str(), what.c_str());
  // (c) get of a key inside the damaged block
  if (!r.fail && !kv.empty()) {
    bytes key = tb < nb ? df.data[(size_t)tb].entries[df.data[(size_t)tb].entries.size() / 2].key : kv[kv.size() / 2].first;
    ChildRun c2 = run_child([&](int fd) { get_verify(bad, key, fd); });
    e = judge_drain(c2, kv, 0, "mtbl_source_get with verify_checksums");
    // judge_drain compares with orig[0]; for get the only constraint is "nothing returned"
    if (!e.empty()) r.failf("%s (key %s) [%s]", e.c_str(), show(key).c_str(), what.c_str());
  }
  // (e) an iterator that was first positioned beyond the damaged block and then seeks back into it
  if (!r.fail && tb + 1 < nb) {
    const ref::DBlock &dmg = df.data[(size_t)tb];
    bytes dkey = dmg.entries[dmg.entries.size() / 2].key;
    bytes lkey = df.data[(size_t)tb + 1 + (size_t)(c.block % (nb - tb - 1))].entries.front().key;
    int variant = (int)(c.bits[0] % 3);
    ChildRun c6 = run_child([&](int fd) { seek_back_verify(bad, lkey, dkey, variant, fd); });
    size_t sb = c6.payload.find("SEEKBACK");
    std::string after = sb == std::string::npos ? std::string() : c6.payload.substr(sb);
    if (c6.sanitizer()) r.failf("seek-back with verify_checksums: sanitizer report: %s", c6.describe().c_str());
    else if (c6.payload.find("NULLREADER") == std::string::npos) {
      if (after.find("\ne ") != std::string::npos)
        r.failf("an iterator positioned beyond the damaged block and then seeked back into it (key %s) returned an entry from the damaged block with verify_checksums on [%s; iterator variant %d]",
                show(dkey).c_str(), what.c_str(), variant);
      else if (sb != std::string::npos && (c6.clean() || after.find("END") != std::string::npos))
        r.failf("an iterator seeked back into the damaged block and the process did not stop [%s]", what.c_str());
    }
    r.tag("seek_back_into_damaged_block");
  }
  // (f) the damaged file read by a process that has just read (and verified) the intact one
  if (!r.fail && tb < nb) {
    const ref::DBlock &dmg = df.data[(size_t)tb];
    bytes key = dmg.entries[dmg.entries.size() / 2].key;
    ChildRun c7 = run_child([&](int fd) { reopen_verify(img, bad, key, fd); });
    size_t sp = c7.payload.find("SECOND");
    std::string after = sp == std::string::npos ? std::string() : c7.payload.substr(sp);
    if (c7.sanitizer()) r.failf("intact reader then damaged reader in one process: sanitizer report: %s", c7.describe().c_str());
    else if (sp == std::string::npos) r.failf("reading the INTACT file with verify_checksums stopped the process (%s)", c7.describe().c_str());
    else if (after.find("NULLREADER") == std::string::npos) {
      if (after.find("\ne ") != std::string::npos)
        r.failf("a process that had verified the intact file, destroyed that reader and then opened the damaged copy with verify_checksums got an entry of the damaged block (key %s) [%s]",
                show(key).c_str(), what.c_str());
      else if (c7.clean() || after.find("END") != std::string::npos)
        r.failf("a process that had verified the intact file and then fetched the damaged block of the damaged copy did not stop [%s]", what.c_str());
    }
    r.tag("damaged_copy_after_intact_reader_in_one_process");
  }
  // (a) mtbl_verify
  if (!r.fail) {
    std::string out, err;
    int code = -1;
    ChildRun c3 = run_child([&](int fd) {
      int tfd = fd_from_bytes(bad);
      std::vector<std::string> args = {"mtbl_verify", "/proc/self/fd/" + std::to_string(tfd)};
      std::string o2, e2;
      int rc = c.exec_tool ? exec_tool_capture("mtbl_verify", args, o2, tfd, &e2) : call_tool_capture(mtbl_verify_main, args, o2, &e2);
      write_all_fd(fd, "rc " + std::to_string(rc) + "\n" + o2);
    });
    size_t p = c3.payload.find("rc ");
    if (p != std::string::npos) code = atoi(c3.payload.c_str() + p + 3);
    bool says_ok = c3.payload.find(": OK") != std::string::npos;
    if (c3.sanitizer()) r.failf("mtbl_verify: sanitizer report: %s", c3.describe().c_str());
    else if (says_ok) r.failf("mtbl_verify printed OK for a file with a damaged block [%s]", what.c_str());
    else if (c3.clean() && code == 0) r.failf("mtbl_verify exited 0 for a file with a damaged block [%s]", what.c_str());
  }
  // (d) intact file
  if (!r.fail && c.check_intact) {
    ChildRun c4 = run_child([&](int fd) { drain_verify(img, fd); });
    size_t n = 0;
    for (size_t p = c4.payload.find("e "); p != std::string::npos; p = c4.payload.find("\ne ", p + 1)) n++;
    if (!c4.clean() || c4.payload.find("END") == std::string::npos || n != kv.size())
      r.failf("intact file does not read completely with verify_checksums (%zu of %zu entries; %s)", n, kv.size(), c4.describe().c_str());
    ChildRun c5 = run_child([&](int fd) {
      int tfd = fd_from_bytes(img);
      std::vector<std::string> args = {"mtbl_verify", "/proc/self/fd/" + std::to_string(tfd)};
      std::string o2;
      int rc = call_tool_capture(mtbl_verify_main, args, o2);
      write_all_fd(fd, "rc " + std::to_string(rc) + "\n" + o2);
    });
    if (!c5.clean() || c5.payload.find("rc 0") == std::string::npos || c5.payload.find(": OK") == std::string::npos)
      r.failf("mtbl_verify does not report the intact file OK: %s %s", c5.payload.substr(0, 200).c_str(), c5.describe().c_str());
    r.tag("intact_checked");
  }
  r.nontrivial = true;
  r.tag(tb == nb ? "index_block_damaged" : tb == nb - 1 ? "last_data_block_damaged" : "data_block_damaged");
  if (c.burst_len) r.tag("burst");
  else r.tag("flips_" + std::to_string(c.bits.size()));
  if (nb >= 2) r.tag("multi_block");
  r.tag("comp_" + std::to_string(c.cfg.eff_comp()));
  if (c.exec_tool) r.tag("exec_verify");
  if (c.cfg.prefix_len) r.tag("foreign_prefix");
  if (c.cfg.prefix_len >= 5000) r.tag("foreign_prefix_ge_5000");
  return r;
}

static Case gen_case() {
  Case c;
  c.cfg = gen_config(true, true);  // pooled writers as well: their files must verify like any other
  c.cfg.by_path = false;
  // foreign bytes before the table: none, a few, or more than the whole data area (mtbl_verify and the reader both have to
  // keep file positions and positions inside the data area apart)
  c.cfg.prefix_len = chance(45) ? one_of<int>({1, 13, 511, 512, 513, 5000, 70000}) : 0;
  c.entries = gen_table(c.cfg.eff_block_size(), 2 + current_size() / 4, false);
  c.block = pick(0, 40);
  if (chance(35)) {
    c.burst_len = pick(2, 32);
    c.burst_mask = pick_u32();
    c.bits.push_back((long)pick(0, 1 << 20));
  } else {
    int n = weighted({50, 25, 25}) + 1;
    for (int i = 0; i < n; i++) c.bits.push_back(chance(30) ? (long)pick(0, 31) : (long)pick(0, 1 << 20));
  }
  c.exec_tool = chance(3);
  c.check_intact = chance(20);
  return c;
}

// ---------------------------------------------------------------- exhaustive single-bit flips (in-process, assertion recovery)
static int extra_modes(const WorkerOpts &o, Stats &stats) {
  if (o.mode != "allbits") return 2;
  int files = (int)o.geti("files", 3);
  long stride = o.geti("stride", 1);  // quick tier samples every stride-th bit
  // the flips of all files are split over the workers by bit index
  for (int fi = 0; fi < files; fi++) {
    Case base;
    base.cfg.comp = fi == 0 ? 0 : fi == 1 ? 2 : 3;
    base.cfg.block_size = 1024;
    base.cfg.restart = 3;
    for (int i = 0; i < (fi == 2 ? 9 : 6); i++) {
      SEntry e;
      char k[16];
      snprintf(k, sizeof k, "k%02d", i);
      e.k = BStr::of(k);
      e.v.glen = (uint32_t)(fi == 2 ? 300 : 200);
      e.v.gseed = (uint32_t)i;
      e.v.gkind = (uint8_t)(fi ? 2 : 0);
      base.entries.push_back(e);
    }
    KVs kv = expand_entries(base.entries);
    Result r = run_isolated([&](Result &rr) {
      bytes img = fd_contents(write_table(base.cfg, kv));
      ref::DFile df = ref::decode_file(img);
      if (!df.err.empty()) {
        rr.failf("decoder: %s", df.err.c_str());
        return;
      }
      int nb = (int)df.data.size();
      long long n = 0;
      long global = 0;
      for (int tb = 0; tb <= nb; tb++) {
        const ref::DBlock &b = tb == nb ? df.index : df.data[(size_t)tb];
        uint64_t off, len;
        region_of(b, off, len);
        size_t allowed = 0;
        for (int i = 0; i < tb && i < nb; i++) allowed += df.data[(size_t)i].entries.size();
        if (tb == nb) allowed = 0;
        for (uint64_t bit = 0; bit < len * 8; bit++, global++) {
          if (global % o.nworkers != o.worker) continue;
          if ((global / o.nworkers) % stride) continue;
          bytes bad = img;
          bad[(size_t)(off + bit / 8)] ^= (char)(1u << (bit % 8));
          // iteration with verification: count entries returned before the assertion stop
          size_t got = 0;
          bool stopped = false;
          int fd = fd_from_bytes(bad);
          vf_assert_armed = 1;
          if (sigsetjmp(vf_assert_jmp, 1) == 0) {
            struct mtbl_reader *rd = open_reader_fd(fd, true);
            if (rd) {
              struct mtbl_iter *it = mtbl_source_iter(mtbl_reader_source(rd));
              const uint8_t *k, *v;
              size_t lk, lv;
              while (it && mtbl_iter_next(it, &k, &lk, &v, &lv) == mtbl_res_success) {
                if (got >= kv.size() || kv[got].first != bytes((const char *)k, lk) || kv[got].second != bytes((const char *)v, lv)) got = (size_t)1 << 30;
                got++;
              }
              if (it) mtbl_iter_destroy(&it);
              mtbl_reader_destroy(&rd);
            } else stopped = true;
            vf_assert_armed = 0;
          } else stopped = true;
          close(fd);
          Case fc = base;
          fc.block = tb;
          fc.bits = {(long)bit};
          if (!stopped || got > allowed) {
            rr.failf("single bit flip (block %d, bit %llu of its checksum+payload): reader with verify_checksums %s and returned %zu entries (allowed: %zu)\n#REPRO\n%s", tb,
                     (unsigned long long)bit, stopped ? "stopped" : "did NOT stop", got, allowed, fc.ser().c_str());
            return;
          }
          // mtbl_verify in-process
          int tfd = fd_from_bytes(bad);
          std::string out;
          int rc = 99;
          vf_assert_armed = 1;
          if (sigsetjmp(vf_assert_jmp, 1) == 0) {
            rc = call_tool_capture(mtbl_verify_main, {"mtbl_verify", "/proc/self/fd/" + std::to_string(tfd)}, out);
            vf_assert_armed = 0;
          } else {
            // stdout was redirected by call_tool_capture when the assertion fired: restore it
            if (freopen("/dev/null", "w", stdout)) {}
            rc = 77;
          }
          close(tfd);
          if (rc == 0 || out.find(": OK") != std::string::npos) {
            rr.failf("single bit flip (block %d, bit %llu): mtbl_verify reports OK / exit 0\n#REPRO\n%s", tb, (unsigned long long)bit, fc.ser().c_str());
            return;
          }
          n++;
        }
      }
      rr.counters["single_bit_faults"] = n;
      rr.nontrivial = true;
    }, 900);
    if (r.fail) {
      size_t p = r.msg.find("#REPRO\n");
      std::string repro = p == std::string::npos ? base.ser() : r.msg.substr(p + 7);
      write_file(o.outdir + "/fail.case", repro);
      write_file(o.outdir + "/fail.msg", r.msg.substr(0, p));
      stats.add(repro, r);
      return 1;
    }
    base.bits = {0};
    stats.add(base.ser() + "# worker slice of every single-bit flip of every block of this file\n", r);
    stats.evaluations += r.counters["single_bit_faults"] - 1;
    stats.counters["bulk_distinct_nontrivial"] += r.counters["single_bit_faults"] - 1;
  }
  return 0;
}

int main(int argc, char **argv) { return vf_main<Case>(argc, argv, "C12", gen_case, run_case, extra_modes); }
