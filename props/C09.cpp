// C09 — written files are well-formed MTBL v2 as judged by an independent decoder (translation validation)
#define VF_MAIN
#include "addhist.h"
using namespace vf;

struct Case {
  AddHist h;
  bool valid() const { return h.valid(); }
  std::string ser() const {
    Out o;
    o << "property C09\n";
    h.ser(o);
    return o.str();
  }
  static Case parse(const std::string &text) {
    Case c;
    for (auto &row : Lines::parse(text).rows) c.h.parse_row(row);
    return c;
  }
};

static Case gen_case() {
  Case c;
  int size = current_size();
  if (chance(2)) {
    c.h = AddHist();
    gen_many_blocks_pooled(c.h.cfg, c.h.adds);
    return c;
  }
  if (chance(50)) {
    // strictly increasing tables with the full configuration space (C01's domain)
    c.h.cfg = gen_config(chance(50));
    int maxn = 4 + size * 3;
    if (c.h.cfg.level_set && (c.h.cfg.level > 12 || c.h.cfg.level < -50) && (c.h.cfg.comp == 5 || c.h.cfg.comp == 4)) maxn = std::min(maxn, 60);
    c.h.adds = gen_table(c.h.cfg.eff_block_size(), maxn);
  } else {
    c.h = gen_add_history(size * 2);
  }
  if (chance(4)) {
    // the writer starts far into a sparse file: offsets beyond 2^31 and 2^32
    c.h.cfg.sparse_off = one_of<unsigned long long>({(1ull << 31) - 100, (1ull << 31) + 5, 3ull << 30, (1ull << 32) + 4096});
    c.h.cfg.prefix_len = 0;
    c.h.cfg.by_path = false;
  }
  return c;
}

static Result run_case(const Case &c) {
  return run_isolated([&](Result &r) {
    KVs calls = expand_entries(c.h.adds);
    KVs content = c.h.accepted(calls);
    int fd = write_table(c.h.cfg, calls);
    if (fd < 0) {
      r.failf("writer could not be created");
      return;
    }
    bytes img = c.h.cfg.sparse_off ? fd_tail(fd, c.h.cfg.sparse_off) : fd_contents(fd);
    if (c.h.cfg.sparse_off) {
      // the hole before the table must still read as zeros (sampled) and the file must not have shrunk
      char probe[64];
      for (unsigned long long o2 : {0ull, c.h.cfg.sparse_off / 2, c.h.cfg.sparse_off - 64})
        if (pread(fd, probe, sizeof probe, (off_t)o2) != (ssize_t)sizeof probe || std::string(probe, sizeof probe) != std::string(sizeof probe, '\0'))
          r.failf("bytes before the table (sparse hole) were modified near offset %llu", o2);
      r.tag("sparse_offset_ge_2GiB");
    }
    close(fd);
    ref::DFile df;
    std::string e = validate_written_file(img, c.h.cfg, content, &df, &r, c.h.cfg.sparse_off);
    r.counters["programs"] = 1;
    r.counters["blocks_validated"] = (long long)df.data.size() + 1;
    if (!e.empty()) r.failf("%s", e.c_str());
    r.nontrivial = df.data.size() >= 2 || c.h.cfg.nondefault();
    if (content.size() != calls.size()) r.tag("has_refused_adds");
    if (c.h.cfg.prefix_len) r.tag("foreign_prefix");
    if (c.h.cfg.pool >= 0) r.tag("pooled");
    if (content.empty()) r.tag("empty_table");
    r.tag("comp_" + std::to_string(c.h.cfg.eff_comp()));
    r.tag("restart_" + std::to_string(c.h.cfg.eff_restart()));
  });
}

int main(int argc, char **argv) {
  g_history_enabled = true;  // process-history modes (harness/vf.h): prelude first / the case body twice in one process
  g_prelude_fn = table_prelude;
  return vf_main<Case>(argc, argv, "C09", gen_case, run_case);
}
