// C15 — compression round trip for every algorithm, level and buffer; names round-trip
#define VF_MAIN
#include "c15_common.h"

struct Case {
  int algo = 2;   // mtbl_compression_type; 0 and unknown values must be refused
  int entry = 0;  // 0 mtbl_compress, 1 mtbl_compress_level
  int level = 0;
  std::vector<BStr> segs;  // buffer = concatenation
  std::vector<std::pair<int, int>> before;  // (algo, level): round trips of a fixed 2000-byte buffer made earlier in the same process
  std::string name;        // when non-empty: a name check instead ("name <string>")
  bytes fuzz;              // when non-empty: a libFuzzer input, decoded by decode_fuzz15()
  bool valid() const {
    size_t tot = 0;
    for (auto &s : segs) tot += s.size();
    return tot <= (80u << 20) && entry >= 0 && entry <= 1 && algo >= -1 && algo <= 9;
  }
  bytes buffer() const {
    bytes b;
    for (auto &s : segs) b += s.expand();
    return b;
  }
  std::string ser() const {
    Out o;
    o << "property C15\n";
    if (!fuzz.empty()) {
      o << "fuzz " << hex(fuzz) << "\n";
      return o.str();
    }
    if (!name.empty()) o << "name " << hex(name) << "\n";
    else {
      for (auto &b : before) o << "before algo=" << b.first << " level=" << b.second << "\n";
      o << "call algo=" << algo << " entry=" << entry << " level=" << level << "\n";
      for (auto &s : segs) o << "seg " << s.ser() << "\n";
    }
    return o.str();
  }
  static Case parse(const std::string &t) {
    Case c;
    for (auto &row : Lines::parse(t).rows) {
      if (row[0] == "before") {
        int a = 2, l = 0;
        for (size_t i = 1; i < row.size(); i++) {
          if (row[i].rfind("algo=", 0) == 0) a = atoi(row[i].c_str() + 5);
          else if (row[i].rfind("level=", 0) == 0) l = atoi(row[i].c_str() + 6);
        }
        if (c.before.size() < 4) c.before.emplace_back(a, l);
      } else if (row[0] == "call") {
        for (size_t i = 1; i < row.size(); i++) {
          size_t e = row[i].find('=');
          if (e == std::string::npos) continue;
          std::string k = row[i].substr(0, e);
          int v = atoi(row[i].c_str() + e + 1);
          if (k == "algo") c.algo = v;
          else if (k == "entry") c.entry = v;
          else if (k == "level") c.level = v;
        }
      } else if (row[0] == "seg" && row.size() > 1) c.segs.push_back(BStr::parse(row[1]));
      else if (row[0] == "name" && row.size() > 1) c.name = unhex(row[1]);
      else if (row[0] == "fuzz" && row.size() > 1) c.fuzz = unhex(row[1]);
    }
    return c;
  }
};


static int gen_level15() {
  switch (weighted({25, 55, 20})) {
    case 0: return one_of<int>({INT_MIN, -131073, -131072, -10000, -2, -1, 0, INT_MAX, 23, 22, 19, 13, 12, 10});
    case 1: return pick(-1, 9);
    default: return pick(-200, 200);
  }
}
static Case gen_case() {
  Case c;
  if (chance(6)) {
    // name checks: exact, case-mixed, near-misses
    std::string n = NAMES[pick(0, 5)];
    switch (weighted({30, 30, 40})) {
      case 0: break;
      case 1:
        for (auto &ch : n)
          if (chance(50)) ch = (char)toupper(ch);
        break;
      default:
        switch (pick(0, 5)) {
          case 0: n += " "; break;
          case 1: n = n.substr(0, n.size() - 1); break;
          case 2: n += "x"; break;
          case 3: n = " " + n; break;
          case 4: n = ""; break;
          default: n[0] = (char)pick(33, 126); break;
        }
    }
    c.name = n.empty() ? std::string("\x01") : n;  // "\x01" encodes the empty string (name must be non-empty to mark the case kind)
    return c;
  }
  c.algo = weighted({3, 18, 24, 16, 17, 20, 2});
  if (c.algo == 6) c.algo = one_of<int>({6, 7, 9, -1});
  c.entry = chance(60);
  c.level = gen_level15();
  if (chance(35)) {
    int nb = pick(1, 2);
    for (int i = 0; i < nb; i++) {
      int a = chance(70) && c.algo >= 1 && c.algo <= 5 ? c.algo : pick(1, 5);
      int l = gen_level15();
      if ((a == 4 || a == 5) && l > 12) l = 12;  // keep the earlier calls cheap
      c.before.emplace_back(a, l);
    }
  }
  bool slow = c.entry == 1 && (c.level > 12 || c.level < -1000) && (c.algo == 4 || c.algo == 5);
  int nseg = weighted({10, 45, 25, 20});
  for (int i = 0; i < nseg; i++) {
    BStr s;
    int sz = weighted({30, 35, 25, 10});
    int n = sz == 0 ? pick(0, 16) : sz == 1 ? pick(0, 300) : sz == 2 ? pick(300, 70000) : pick(70000, 4 << 20);
    if (slow && n > 65536) n = 65536 / (nseg ? nseg : 1);
    if (n <= 16 && chance(60)) {
      for (int j = 0; j < n; j++) s.lit.push_back((char)pick(0, 255));
    } else {
      s.glen = (uint32_t)n;
      s.gkind = (uint8_t)weighted({40, 30, 20, 10});
      s.gseed = pick_u32();
    }
    c.segs.push_back(s);
  }
  return c;
}

static void body(const Case &c, Result &r) {
  if (!c.fuzz.empty()) {
    int algo, entry, level;
    bytes buf;
    decode_fuzz15((const uint8_t *)c.fuzz.data(), c.fuzz.size(), algo, entry, level, buf);
    std::string err;
    if (!roundtrip(algo, entry, level, buf, err)) r.failf("%s", err.c_str());
    r.nontrivial = true;
    r.tag("from_fuzzer_artifact");
    return;
  }
  if (!c.name.empty()) {
    std::string n = c.name == "\x01" ? "" : c.name;
    mtbl_compression_type t = (mtbl_compression_type)99;
    mtbl_res res = mtbl_compression_type_from_str(n.c_str(), &t);
    int want = -1;
    bool exact = false;
    for (int i = 0; i < 6; i++) {
      if (strcasecmp(n.c_str(), NAMES[i]) == 0) want = i;
      if (strcmp(n.c_str(), NAMES[i]) == 0) exact = true;
    }
    if (want >= 0 && !exact && res != mtbl_res_success) {
      // a differently-cased spelling: the statement only promises that the canonical names round-trip, so refusing it is fine
      r.tag("case_variant_refused");
    } else if (want >= 0) {
      if (res != mtbl_res_success || (int)t != want) r.failf("mtbl_compression_type_from_str(\"%s\") = %d/%d, expected success/%d", n.c_str(), (int)res, (int)t, want);
      else {
        const char *back = mtbl_compression_type_to_str(t);
        if (!back || strcmp(back, NAMES[want]) != 0) r.failf("to_str(from_str(\"%s\")) = %s", n.c_str(), back ? back : "NULL");
      }
      r.tag("known_name");
    } else {
      if (res == mtbl_res_success) r.failf("unknown algorithm name \"%s\" was accepted as %d", n.c_str(), (int)t);
      r.tag("unknown_name");
    }
    for (int i = 0; i < 6; i++) {
      const char *s = mtbl_compression_type_to_str((mtbl_compression_type)i);
      mtbl_compression_type t2;
      if (!s || mtbl_compression_type_from_str(s, &t2) != mtbl_res_success || (int)t2 != i) r.failf("from_str(to_str(%d)) is not the identity", i);
    }
    if (mtbl_compression_type_to_str((mtbl_compression_type)6) != nullptr) r.failf("to_str(6) is not NULL");
    r.nontrivial = true;
    return;
  }
  bytes in = c.buffer();
  std::string err;
  // "every algorithm, every level and every input buffer" holds for every call, whatever the process compressed before:
  // earlier round trips at other levels / with other algorithms come first (each of them is judged too)
  if (!c.before.empty()) {
    bytes warm;
    for (int i = 0; i < 2000; i++) warm.push_back((char)(i % 7 == 0 ? i * 31 : 'a' + i % 3));
    for (auto &b : c.before) {
      if (b.first < 1 || b.first > 5) continue;
      if (!roundtrip(b.first, 1, b.second, warm, err)) {
        r.failf("earlier call in the same process (algorithm %s, level %d, 2000-byte buffer): %s", NAMES[b.first], b.second, err.c_str());
        return;
      }
    }
    r.tag("other_calls_earlier_in_the_process");
  }
  if (!roundtrip(c.algo, c.entry, c.level, in, err)) r.failf("%s%s", c.before.empty() ? "" : "after earlier calls in the same process: ", err.c_str());
  r.nontrivial = c.algo >= 1 && c.algo <= 5;
  if (c.algo >= 1 && c.algo <= 5) r.tag(std::string("algo_") + NAMES[c.algo]);
  else r.tag("not_an_algorithm");
  if (in.size() <= 16) r.tag("len_le16");
  if (in.empty()) r.tag("empty_buffer");
  if (in.size() >= (1u << 20)) r.tag("len_ge1MiB");
  if (in.size() > (1u << 24)) r.tag("len_gt16MiB");
  if (c.entry) r.tag("compress_level");
  if (c.entry && (c.level < -1 || c.level > 22)) r.tag("level_out_of_range");
}
static Result run_case(const Case &c) {
  return run_isolated([&](Result &r) { body(c, r); }, 60);
}

// exhaustive small tier: every length 0..64 x 4 contents x 5 algorithms x both entry points x level list;
// one child per (algorithm, entry point, level); a failing child is re-run case by case to name the combination
static const int LEVELS[] = {INT_MIN, -131073, -10000, -1, 0, 1, 3, 6, 9, 10, 12, 13, 19, 22, 23, INT_MAX};
static bytes small_buf(int len, int content) {
  BStr s;
  s.glen = (uint32_t)len;
  s.gkind = content == 0 ? 1 : content == 1 ? 3 : content == 2 ? 0 : 2;
  s.gseed = content == 0 ? 0 : 7;
  return s.expand();
}
// every single-bit change of every byte of the six canonical names (a name of the right length that differs from a valid one
// in one bit): refused unless it is a case variant of a valid name (which may be accepted or refused, see body())
static bool check_name_bitflips(Stats &stats, const WorkerOpts &o) {
  for (int i = 0; i < 6; i++) {
    std::string base = NAMES[i];
    for (size_t p = 0; p < base.size(); p++)
      for (int b = 0; b < 8; b++) {
        std::string n = base;
        n[p] = (char)(n[p] ^ (1 << b));
        if (n[p] == 0) continue;
        Case c;
        c.name = n;
        Result r;
        body(c, r);
        stats.add(c.ser(), r);
        if (r.fail) {
          write_file(o.outdir + "/fail.case", c.ser());
          write_file(o.outdir + "/fail.msg", r.msg);
          return false;
        }
      }
  }
  return true;
}
static int extra_modes(const WorkerOpts &o, Stats &stats) {
  if (o.mode == "small" && o.worker == 0 && !check_name_bitflips(stats, o)) return 1;
  if (o.mode == "big") {
    // buffers just above 2^24 (and 2^25) bytes: the sizes at which 24/25-bit length fields would wrap
    static const uint32_t SIZES[] = {16777217u, 33554437u};
    int nsizes = (int)o.geti("sizes", 1);
    for (int a = 1 + o.worker; a <= 5; a += o.nworkers)
      for (int si = 0; si < nsizes && si < 2; si++)
        for (int kind = 0; kind < 2; kind++) {
          Case c;
          c.algo = a;
          c.entry = kind;  // default level via mtbl_compress for one, explicit level 1 for the other
          c.level = 1;
          BStr s;
          s.glen = SIZES[si];
          s.gkind = kind == 0 ? 2 : 0;
          s.gseed = 5;
          c.segs.push_back(s);
          Result r = run_case(c);
          stats.add(c.ser(), r);
          if (r.fail) {
            write_file(o.outdir + "/fail.case", c.ser());
            write_file(o.outdir + "/fail.msg", r.msg);
            return 1;
          }
        }
    return 0;
  }
  if (o.mode != "small") return 2;
  int maxlen = (int)o.geti("maxlen", 64);
  std::vector<std::pair<int, std::pair<int, int>>> combos;  // algo, (entry, level)
  for (int a = 1; a <= 5; a++) {
    combos.push_back({a, {0, 0}});
    for (int l : LEVELS) combos.push_back({a, {1, l}});
  }
  for (size_t ci = (size_t)o.worker; ci < combos.size(); ci += (size_t)o.nworkers) {
    int a = combos[ci].first, en = combos[ci].second.first, lv = combos[ci].second.second;
    Result r = run_isolated([&](Result &rr) {
      long long n = 0;
      for (int len = 0; len <= maxlen; len++)
        for (int ct = 0; ct < 4; ct++) {
          std::string err;
          if (!roundtrip(a, en, lv, small_buf(len, ct), err)) {
            rr.failf("len=%d content=%d: %s", len, ct, err.c_str());
            return;
          }
          n++;
        }
      rr.counters["small_roundtrips"] = n;
      rr.nontrivial = true;
    }, 900);
    Case rep;
    rep.algo = a;
    rep.entry = en;
    rep.level = lv;
    BStr all;
    all.glen = (uint32_t)maxlen;
    rep.segs.push_back(all);
    if (r.fail) {
      // locate the first failing (len, content) with one child per combination
      for (int len = 0; len <= maxlen; len++)
        for (int ct = 0; ct < 4; ct++) {
          Case c1;
          c1.algo = a;
          c1.entry = en;
          c1.level = lv;
          BStr s;
          s.glen = (uint32_t)len;
          s.gkind = ct == 0 ? 1 : ct == 1 ? 3 : ct == 2 ? 0 : 2;
          s.gseed = ct == 0 ? 0 : 7;
          c1.segs.push_back(s);
          Result r1 = run_case(c1);
          stats.add(c1.ser(), r1);
          if (r1.fail) {
            write_file(o.outdir + "/fail.case", c1.ser());
            write_file(o.outdir + "/fail.msg", r1.msg);
            return 1;
          }
        }
      write_file(o.outdir + "/fail.case", rep.ser());
      write_file(o.outdir + "/fail.msg", r.msg);
      return 1;
    }
    std::string tagser = rep.ser() + "# all lengths 0.." + std::to_string(maxlen) + " x 4 contents\n";
    stats.add(tagser, r);
    stats.evaluations += r.counters["small_roundtrips"] - 1;
    stats.counters["bulk_distinct_nontrivial"] += r.counters["small_roundtrips"] - 1;
  }
  return 0;
}

int main(int argc, char **argv) {
  g_history_enabled = true;  // process-history mode 2 (harness/vf.h): a shadow of the case runs first in the same process
  return vf_main<Case>(argc, argv, "C15", gen_case, run_case, extra_modes);
}
