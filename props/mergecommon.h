// Shared by C04/C05 (and reused by C06/C07/C18): families of merger sources, the token-based
// merge function, user-defined sources that invalidate old buffers, and the merged model.
#pragma once
#include "readcommon.h"
#include <pthread.h>

namespace vf {

// ---------------------------------------------------------------- values are unique 4-byte tokens
inline bytes token(int src, int ordinal) {
  bytes t(4, '\0');
  t[0] = (char)(0xA0 + (src & 0x1f));
  t[1] = (char)((ordinal >> 8) & 0xff);
  t[2] = (char)(ordinal & 0xff);
  t[3] = (char)(0xEE ^ (g_bstr_salt & 0x0f));  // differs in a shadow run (history mode 2)
  return t;
}
inline std::vector<bytes> tokens_of(const bytes &v) {
  std::vector<bytes> t;
  for (size_t i = 0; i + 4 <= v.size(); i += 4) t.push_back(v.substr(i, 4));
  std::sort(t.begin(), t.end());
  return t;
}
inline bool token_multiset_eq(const bytes &a, const bytes &b) {
  return a.size() == b.size() && a.size() % 4 == 0 && tokens_of(a) == tokens_of(b);
}
inline ValueCmp token_cmp() {
  ValueCmp v;
  v.eq = token_multiset_eq;
  return v;
}

// merge callback: concatenation (deliberately non-commutative); optionally fails at the j-th call
struct MergeClos {
  long long calls = 0;
  long long fail_at = -1;  // 1-based call number that reports failure
  int fail_style = 0;      // how failure is reported: 0 stores NULL into *merged_val, 1 returns without storing anything
                           // (the library presets *merged_val = NULL before each call, so both mean "no value")
  std::vector<std::pair<bytes, std::pair<bytes, bytes>>> log;  // (key, (val0, val1))
  bool keep_log = true;
};
static void concat_merge(void *clos, const uint8_t *key, size_t len_key, const uint8_t *v0, size_t l0, const uint8_t *v1, size_t l1,
                         uint8_t **merged, size_t *len_merged) {
  MergeClos *mc = (MergeClos *)clos;
  // pooled sorters call the merge function from several worker threads at once
  long long my_call = __atomic_add_fetch(&mc->calls, 1, __ATOMIC_SEQ_CST);
  if (mc->keep_log) {
    static pthread_mutex_t mu = PTHREAD_MUTEX_INITIALIZER;
    pthread_mutex_lock(&mu);
    mc->log.push_back({bytes((const char *)key, len_key), {bytes((const char *)v0, l0), bytes((const char *)v1, l1)}});
    pthread_mutex_unlock(&mu);
  }
  if (mc->fail_at >= 0 && my_call == mc->fail_at) {
    if (mc->fail_style == 0) {
      *merged = nullptr;
      *len_merged = 0;
    }
    return;
  }
  *len_merged = l0 + l1;
  *merged = (uint8_t *)malloc(l0 + l1 ? l0 + l1 : 1);
  memcpy(*merged, v0, l0);
  memcpy(*merged + l0, v1, l1);
}
// Second value family ("modsum", vmode 1): values are byte strings of any length read as a big-endian integer mod 65536;
// the merge function adds the operands and returns the MINIMAL encoding of the sum, so a merged value is usually shorter
// than its operands (the concatenating function above can only grow values).  Addition is commutative and associative, so
// the expected fold is independent of the order the library folds in; a dropped or doubly-used operand changes the sum.
inline unsigned msum_int(const uint8_t *p, size_t n) {
  unsigned v = 0;
  for (size_t i = 0; i < n; i++) v = ((v << 8) | p[i]) & 0xffff;
  return v;
}
inline unsigned msum_int(const bytes &b) { return msum_int((const uint8_t *)b.data(), b.size()); }
inline bytes msum_enc(unsigned n) {
  n &= 0xffff;
  bytes b;
  if (n >> 8) b.push_back((char)(n >> 8));
  if (n) b.push_back((char)(n & 0xff));
  return b;
}
inline bytes msum_value(int src, int ordinal) {  // deterministic, length 0..40
  auto mix = [](uint64_t h) {
    h ^= h >> 29;
    h *= 0xBF58476D1CE4E5B9ull;
    h ^= h >> 32;
    return h;
  };
  uint64_t base = (uint64_t)(src + 1) * 0x9E3779B97F4A7C15ull + (uint64_t)(ordinal + 1) * 0xC2B2AE3D27D4EB4Full;
  static const int lens[] = {0, 1, 2, 2, 3, 5, 9, 40};
  int len = lens[mix(base) & 7];                                // the length is the same in a shadow run (history mode 2) ...
  uint64_t x = mix(base + ((uint64_t)g_bstr_salt << 7)) >> 3;  // ... the content is not
  bytes b;
  for (int i = 0; i < len; i++) {
    b.push_back((char)(x & 0xff));
    x = x * 6364136223846793005ull + 1442695040888963407ull;
    x ^= x >> 17;
  }
  return b;
}
inline bytes family_value(int vmode, int src, int ordinal) { return vmode ? msum_value(src, ordinal) : token(src, ordinal); }
static void modsum_merge(void *clos, const uint8_t *key, size_t len_key, const uint8_t *v0, size_t l0, const uint8_t *v1, size_t l1,
                         uint8_t **merged, size_t *len_merged) {
  MergeClos *mc = (MergeClos *)clos;
  long long my_call = __atomic_add_fetch(&mc->calls, 1, __ATOMIC_SEQ_CST);
  (void)key;
  (void)len_key;
  if (mc->fail_at >= 0 && my_call == mc->fail_at) {
    if (mc->fail_style == 0) {
      *merged = nullptr;
      *len_merged = 0;
    }
    return;
  }
  bytes out = msum_enc(msum_int(v0, l0) + msum_int(v1, l1));
  *len_merged = out.size();
  *merged = (uint8_t *)malloc(out.size() ? out.size() : 1);
  memcpy(*merged, out.data(), out.size());
}
inline mtbl_merge_func family_merge_func(int vmode) { return vmode ? modsum_merge : concat_merge; }
// expected value of a key given the values folded for it, in either family
inline bytes fold_expected(int vmode, const std::vector<bytes> &vals) {
  bytes out;
  if (!vmode) {
    for (auto &v : vals) out += v;
    return out;
  }
  if (vals.size() == 1) return vals[0];
  unsigned s = 0;
  for (auto &v : vals) s += msum_int(v);
  return msum_enc(s);
}
inline bool family_value_eq(int vmode, const bytes &a, const bytes &b) { return vmode ? a == b : token_multiset_eq(a, b); }

static int dupsort_bytewise(void *clos, const uint8_t *, size_t, const uint8_t *v0, size_t l0, const uint8_t *v1, size_t l1) {
  int sign = clos ? -1 : 1;
  size_t n = l0 < l1 ? l0 : l1;
  int c = memcmp(v0, v1, n);
  if (c == 0) c = l0 < l1 ? -1 : l0 > l1 ? 1 : 0;
  return sign * c;
}

// ---------------------------------------------------------------- user-defined source
// Every next() hands out a fresh malloc'd copy of key and value and frees the previous one,
// so a consumer that keeps using an old buffer is an ASan report.
struct UserSrc {
  KVs e;
};
struct UserIter {
  const UserSrc *s;
  IterSpec spec;
  size_t pos;
  uint8_t *kbuf = nullptr, *vbuf = nullptr;
  bool done = false;
};
static mtbl_res user_iter_seek(void *v, const uint8_t *key, size_t len) {
  UserIter *it = (UserIter *)v;
  bytes k((const char *)key, len);
  size_t i = 0;
  while (i < it->s->e.size() && bcmp3(it->s->e[i].first, k) < 0) i++;
  it->pos = i;
  it->done = false;
  return mtbl_res_success;
}
static mtbl_res user_iter_next(void *v, const uint8_t **key, size_t *lk, const uint8_t **val, size_t *lv) {
  UserIter *it = (UserIter *)v;
  free(it->kbuf);
  free(it->vbuf);
  it->kbuf = it->vbuf = nullptr;
  if (it->done || it->pos >= it->s->e.size() || !it->spec.in_bound(it->s->e[it->pos].first)) {
    it->done = true;
    return mtbl_res_failure;
  }
  const KV &kv = it->s->e[it->pos++];
  it->kbuf = (uint8_t *)malloc(kv.first.size() ? kv.first.size() : 1);
  it->vbuf = (uint8_t *)malloc(kv.second.size() ? kv.second.size() : 1);
  memcpy(it->kbuf, kv.first.data(), kv.first.size());
  memcpy(it->vbuf, kv.second.data(), kv.second.size());
  *key = it->kbuf;
  *lk = kv.first.size();
  *val = it->vbuf;
  *lv = kv.second.size();
  return mtbl_res_success;
}
static void user_iter_free(void *v) {
  UserIter *it = (UserIter *)v;
  free(it->kbuf);
  free(it->vbuf);
  delete it;
}
static struct mtbl_iter *user_mk(void *clos, const IterSpec &sp) {
  UserSrc *s = (UserSrc *)clos;
  UserIter *it = new UserIter{s, sp, 0};
  bytes rs = sp.range_start();
  size_t i = 0;
  while (i < s->e.size() && bcmp3(s->e[i].first, rs) < 0) i++;
  it->pos = i;
  return mtbl_iter_init(user_iter_seek, user_iter_next, user_iter_free, it);
}
static struct mtbl_iter *user_src_iter(void *c) { return user_mk(c, IterSpec()); }
static struct mtbl_iter *user_src_get(void *c, const uint8_t *k, size_t l) {
  IterSpec s;
  s.kind = 1;
  s.a = bytes((const char *)k, l);
  return user_mk(c, s);
}
static struct mtbl_iter *user_src_prefix(void *c, const uint8_t *k, size_t l) {
  IterSpec s;
  s.kind = 2;
  s.a = bytes((const char *)k, l);
  return user_mk(c, s);
}
static struct mtbl_iter *user_src_range(void *c, const uint8_t *k0, size_t l0, const uint8_t *k1, size_t l1) {
  IterSpec s;
  s.kind = 3;
  s.a = bytes((const char *)k0, l0);
  s.b = bytes((const char *)k1, l1);
  return user_mk(c, s);
}

// ---------------------------------------------------------------- source families
struct SrcSpec {
  int kind = 0;  // 0 table read through a reader, 1 user-defined source
  std::vector<bytes> keys;  // ascending, distinct (may be empty: an empty source)
};
struct SrcFamily {
  std::vector<SrcSpec> srcs;
  int vmode = 0;  // 0: unique 4-byte tokens + concatenating merge function; 1: variable-length values + modsum merge function
  int kpad = 0;   // every key is preceded by this many bytes 'p': with restart interval 1 (every third table source) nothing is
                  // shared, entries are kpad+ bytes each and a dozen keys span several 1 KiB blocks with shortened separators
  bytes pk(const bytes &k) const { return kpad ? bytes((size_t)kpad, 'p') + k : k; }
  void ser(Out &o) const {
    if (vmode) o << "vmode " << vmode << "\n";
    if (kpad) o << "kpad " << kpad << "\n";
    for (size_t i = 0; i < srcs.size(); i++) {
      o << "src " << i << " kind=" << srcs[i].kind;
      for (auto &k : srcs[i].keys) o << " " << (k.empty() ? "-" : hex(k));
      o << "\n";
    }
  }
  void parse_row(const std::vector<std::string> &row) {
    if (row[0] == "vmode" && row.size() > 1) vmode = atoi(row[1].c_str()) ? 1 : 0;
    if (row[0] == "kpad" && row.size() > 1) kpad = std::max(0, std::min(600, atoi(row[1].c_str())));
    if (row[0] != "src") return;
    SrcSpec s;
    for (size_t i = 2; i < row.size(); i++) {
      if (row[i].rfind("kind=", 0) == 0) s.kind = atoi(row[i].c_str() + 5);
      else s.keys.push_back(row[i] == "-" ? bytes() : unhex(row[i]));
    }
    srcs.push_back(s);
  }
  // tables hold strictly increasing keys; a user-defined source may yield the same key several times (non-decreasing)
  bool valid() const {
    if (srcs.size() > 32) return false;
    for (auto &s : srcs) {
      if (s.kind < 0 || s.kind > 1) return false;
      for (size_t i = 1; i < s.keys.size(); i++) {
        int c = bcmp3(s.keys[i - 1], s.keys[i]);
        if (c > 0 || (c == 0 && s.kind != 1)) return false;
      }
    }
    return true;
  }
  bool has_dups_within_a_source() const {
    for (auto &s : srcs)
      for (size_t i = 1; i < s.keys.size(); i++)
        if (s.keys[i - 1] == s.keys[i]) return true;
    return false;
  }
  void dedupe_within_sources() {
    for (auto &s : srcs) s.keys.erase(std::unique(s.keys.begin(), s.keys.end()), s.keys.end());
  }
  KVs content(size_t i) const {
    KVs kv;
    for (size_t j = 0; j < srcs[i].keys.size(); j++) kv.emplace_back(pk(srcs[i].keys[j]), family_value(vmode, (int)i, (int)j));
    return kv;
  }
  // merged model under the family's merge function (vmode 0: concatenation in source order, compared as token multisets;
  // vmode 1: the modular sum, compared exactly)
  RefTable merged() const {
    std::map<bytes, std::vector<bytes>, BLess> m;
    for (size_t i = 0; i < srcs.size(); i++)
      for (auto &kv : content(i)) m[kv.first].push_back(kv.second);
    RefTable t;
    for (auto &kv : m) t.e.emplace_back(kv.first, fold_expected(vmode, kv.second));
    return t;
  }
  mtbl_merge_func merge_func() const { return family_merge_func(vmode); }
  bool value_eq(const bytes &a, const bytes &b) const { return family_value_eq(vmode, a, b); }
  ValueCmp cmp() const {
    ValueCmp v;
    if (!vmode) v.eq = token_multiset_eq;
    return v;
  }
  std::map<bytes, int, BLess> occurrences() const {
    std::map<bytes, int, BLess> m;
    for (auto &s : srcs)
      for (auto &k : s.keys) m[pk(k)]++;
    return m;
  }
};

// tiny key universe so that keys collide across sources: <= 2 symbols over 4 symbols, plus the empty key
inline SrcFamily gen_family(int max_sources = 6, bool allow_user = true) {
  SrcFamily f;
  static const unsigned char alpha_all[] = {0x00, 'a', 'b', 0x7f, 0x80, 0xff, 'c', 0x01};
  unsigned char al[4];
  int off = pick(0, 4);
  for (int i = 0; i < 4; i++) al[i] = alpha_all[(off + i * (1 + off % 2)) % 8];
  int ns = weighted({4, 16, 22, 18, 12, 8, 6, 14});
  if (ns == 7) ns = pick(7, 16);  // wide mergers: heaps three and four levels deep
  if (ns > max_sources) ns = max_sources;
  f.vmode = chance(30);
  if (chance(25)) f.kpad = one_of<int>({120, 200, 400});
  int len_cap = weighted({30, 55, 15}) + 1;  // max key length 1..3
  for (int s = 0; s < ns; s++) {
    SrcSpec sp;
    sp.kind = allow_user && chance(30) ? 1 : 0;
    std::set<bytes, BLess> ks;
    int n = weighted({12, 88}) == 0 ? 0 : pick(1, 14);
    for (int i = 0; i < n; i++) {
      bytes k;
      int l = weighted({10, 45, 35, 10});
      if (l > len_cap) l = len_cap;
      for (int j = 0; j < l; j++) k.push_back((char)al[pick(0, 3)]);
      ks.insert(k);
    }
    sp.keys.assign(ks.begin(), ks.end());
    if (sp.kind == 1 && !sp.keys.empty() && chance(35)) {
      // a user-defined source that yields some keys more than once (e.g. what a merger without a merge function looks like)
      int extra = pick(1, 3);
      for (int i = 0; i < extra; i++) sp.keys.push_back(sp.keys[(size_t)pick(0, (int)sp.keys.size() - 1)]);
      std::stable_sort(sp.keys.begin(), sp.keys.end(), BLess());
    }
    f.srcs.push_back(sp);
  }
  return f;
}

// Materialised sources living for the duration of a case (in the child).
struct LiveSources {
  std::vector<int> fds;
  std::vector<struct mtbl_reader *> readers;
  std::vector<UserSrc *> users;
  std::vector<struct mtbl_source *> user_sources;
  std::vector<const struct mtbl_source *> sources;  // in family order
  std::vector<std::string> paths;                   // /proc/self/fd/N of reader-backed sources ("" for user sources)
  bool build(const SrcFamily &f, Result &r, int block_size = 1024, int comp = 0) {
    for (size_t i = 0; i < f.srcs.size(); i++) {
      KVs kv = f.content(i);
      if (f.srcs[i].kind == 1) {
        UserSrc *u = new UserSrc{kv};
        users.push_back(u);
        struct mtbl_source *s = mtbl_source_init(user_src_iter, user_src_get, user_src_prefix, user_src_range, nullptr, u);
        user_sources.push_back(s);
        sources.push_back(s);
        paths.push_back("");
      } else {
        WConfig c;
        c.comp = comp;
        c.block_size = block_size;
        c.restart = 1 + (int)(i % 3);
        int fd = write_table(c, kv);
        if (fd < 0) {
          r.failf("cannot write source table %zu", i);
          return false;
        }
        struct mtbl_reader *rd = open_reader_fd(fd);
        if (!rd) {
          r.failf("cannot open source table %zu", i);
          return false;
        }
        fds.push_back(fd);
        readers.push_back(rd);
        sources.push_back(mtbl_reader_source(rd));
        paths.push_back("/proc/self/fd/" + std::to_string(fd));
      }
    }
    return true;
  }
  ~LiveSources() {
    for (auto &s : user_sources) mtbl_source_destroy(&s);
    for (auto u : users) delete u;
    for (auto &rd : readers) mtbl_reader_destroy(&rd);
    for (int fd : fds) close(fd);
  }
};

}  // namespace vf
