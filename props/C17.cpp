// C17 — mtbl_crc32c is the standard CRC-32C on every buffer, both implementations
#define VF_MAIN
#include "../harness/refcodec.h"
#include <sys/mman.h>
#include <sys/wait.h>
#include <unistd.h>
using namespace vf;

extern "C" {
uint32_t my_crc32c_slicing(const uint8_t *, size_t);
bool my_crc32c_sse42_supported(void);
uint32_t my_crc32c_sse42(const uint8_t *, size_t);
}

// ---------------------------------------------------------------- calls made before the library's own load-time initialisers
// "every buffer" includes buffers checksummed from another library's (or the application's) static constructor, i.e. before
// any constructor inside libmtbl has run; libmy/crc32c.c goes out of its way to support that.  This constructor runs first
// (priority 101 < default) and records what the three entry points return for a few fixed buffers; the "vectors" mode and
// `early <index>` cases compare the recorded values with the reference later.
static const size_t EARLY_LENS[] = {0, 1, 7, 8, 9, 63, 64, 1100, 4096, 6143, 6144, 20000, 70000, 200000};
static const int N_EARLY = (int)(sizeof EARLY_LENS / sizeof EARLY_LENS[0]);
static uint8_t g_early_buf[200000 + 8];
static uint32_t g_early_res[N_EARLY][3];
static bool g_early_sse = false;
static void early_fill() {
  uint32_t x = 0x9E3779B9u;
  for (size_t i = 0; i < sizeof g_early_buf; i++) {
    x = x * 1664525u + 1013904223u;
    g_early_buf[i] = (uint8_t)(x >> 24);
  }
}
static int g_early_died = 0;  // wait status of the probing child when it did not deliver (sanitizer report, signal)
static void early_compute() {
  for (int i = 0; i < N_EARLY; i++) {
    const uint8_t *p = g_early_buf + (i % 8);
    g_early_res[i][0] = mtbl_crc32c(p, EARLY_LENS[i]);
    g_early_res[i][1] = my_crc32c_slicing(p, EARLY_LENS[i]);
    g_early_res[i][2] = g_early_sse ? my_crc32c_sse42(p, EARLY_LENS[i]) : 0;
  }
}
// The probing itself runs in a forked child (still before the library's initialisers: the child inherits the parent's state
// at this point), so that a sanitizer report or a crash inside a probe becomes a recorded failure instead of killing the
// worker before main().
__attribute__((constructor(101))) static void early_probe() {
  early_fill();
  g_early_sse = my_crc32c_sse42_supported();
  int pfd[2];
  if (pipe(pfd) != 0) {
    early_compute();
    return;
  }
  pid_t pid = fork();
  if (pid == 0) {
    close(pfd[0]);
    early_compute();
    size_t off = 0;
    while (off < sizeof g_early_res) {
      ssize_t n = write(pfd[1], (const char *)g_early_res + off, sizeof g_early_res - off);
      if (n <= 0) _exit(3);
      off += (size_t)n;
    }
    _exit(0);
  }
  close(pfd[1]);
  size_t off = 0;
  while (pid > 0 && off < sizeof g_early_res) {
    ssize_t n = read(pfd[0], (char *)g_early_res + off, sizeof g_early_res - off);
    if (n <= 0) break;
    off += (size_t)n;
  }
  close(pfd[0]);
  int st = 0;
  if (pid > 0) waitpid(pid, &st, 0);
  if (pid < 0 || off < sizeof g_early_res) g_early_died = st ? st : -1;
}

struct Case {
  BStr buf;
  int align = 0;
  int early = -1;  // >= 0: not a buffer of its own but the index of a load-time probe (see above)
  int huge = -1;   // >= 0: index into HUGE_CASES: a buffer of 4 GiB and more (thorough tier only, see run_huge)
  int mt = 0;      // 1: the four-thread scenario of mode "mt" (replayed with a fixed seed)
  bool valid() const { return align >= 0 && align < 64 && buf.size() <= (64u << 20) && early >= -1 && early < N_EARLY && huge >= -1 && huge < 3; }
  std::string ser() const {
    Out o;
    if (early >= 0) {
      o << "property C17\nearly " << early << "\n";
      return o.str();
    }
    if (huge >= 0) {
      o << "property C17\nhuge " << huge << "\n";
      return o.str();
    }
    if (mt) {
      o << "property C17\nmt 1\n";
      return o.str();
    }
    o << "property C17\nbuffer " << buf.ser() << " align=" << align << "\n";
    return o.str();
  }
  static Case parse(const std::string &t) {
    Case c;
    for (auto &row : Lines::parse(t).rows)
      if (row[0] == "early" && row.size() >= 2) c.early = atoi(row[1].c_str());
      else if (row[0] == "huge" && row.size() >= 2) c.huge = atoi(row[1].c_str());
      else if (row[0] == "mt" && row.size() >= 2) c.mt = atoi(row[1].c_str()) ? 1 : 0;
      else if (row[0] == "buffer" && row.size() >= 2) {
        c.buf = BStr::parse(row[1]);
        for (size_t i = 2; i < row.size(); i++)
          if (row[i].rfind("align=", 0) == 0) c.align = atoi(row[i].c_str() + 6);
      }
    return c;
  }
};

static char g_err[400];
static bool g_have_sse = false;
static long long g_sse_checks = 0;

// buffer placed at the END of an exact-size heap block (over-read of one byte = ASan report) at the given alignment offset
// the buffer under evaluation, for the sanitizer death hook
static const uint8_t *g_cur_data = nullptr;
static size_t g_cur_n = 0;
static int g_cur_align = 0;
static void death_case(std::string &ctext, std::string &msg) {
  struct CaseLite {
    static std::string ser(const uint8_t *d, size_t n, int al) {
      Out o;
      o << "property C17\nbuffer " << (n ? hex(bytes((const char *)d, n)) : std::string("-")) << " align=" << al << "\n";
      return o.str();
    }
  };
  if (!g_cur_data && g_cur_n) return;
  ctext = CaseLite::ser(g_cur_data, g_cur_n > (1u << 20) ? 0 : g_cur_n, g_cur_align);
  msg = "length " + std::to_string(g_cur_n) + ", alignment " + std::to_string(g_cur_align);
}
static bool check_buf(const uint8_t *data, size_t n, int align, uint32_t want) {
  g_cur_data = data;
  g_cur_n = n;
  g_cur_align = align;
  // malloc returns 16-byte aligned memory; place the data at offset `align` and end the block right after it
  uint8_t *base = (uint8_t *)malloc((size_t)align + n + (n == 0 && align == 0 ? 1 : 0));
  uint8_t *p = base + align;
  if (n) memcpy(p, data, n);
  uint32_t a = mtbl_crc32c(p, n), b = my_crc32c_slicing(p, n), c = g_have_sse ? my_crc32c_sse42(p, n) : want;
  if (g_have_sse) g_sse_checks++;
  free(base);
  if (a != want) { snprintf(g_err, sizeof g_err, "mtbl_crc32c(len %zu, alignment %d) = %08x, standard CRC-32C is %08x", n, align, a, want); return false; }
  if (b != want) { snprintf(g_err, sizeof g_err, "my_crc32c_slicing(len %zu, alignment %d) = %08x, standard CRC-32C is %08x", n, align, b, want); return false; }
  if (c != want) { snprintf(g_err, sizeof g_err, "my_crc32c_sse42(len %zu, alignment %d) = %08x, standard CRC-32C is %08x", n, align, c, want); return false; }
  return true;
}
static bool check_early(int i) {
  if (g_early_died) {
    snprintf(g_err, sizeof g_err, "the process computing mtbl_crc32c / my_crc32c_slicing / my_crc32c_sse42 of %d fixed buffers (0..200000 bytes) from a static constructor died (wait status 0x%x: sanitizer report or signal; see stderr)",
             N_EARLY, g_early_died);
    return false;
  }
  const uint8_t *p = g_early_buf + (i % 8);
  size_t n = EARLY_LENS[i];
  uint32_t want = ref::crc32c_bitwise(p, n);
  static const char *fn[3] = {"mtbl_crc32c", "my_crc32c_slicing", "my_crc32c_sse42"};
  for (int f = 0; f < 3; f++) {
    if (f == 2 && !g_early_sse) continue;
    if (g_early_res[i][f] != want) {
      snprintf(g_err, sizeof g_err, "%s(len %zu, alignment %d) called from a static constructor that runs before the library's own initialisers returned %08x, standard CRC-32C is %08x",
               fn[f], n, i % 8, g_early_res[i][f], want);
      return false;
    }
  }
  return true;
}
// Buffers of 4 GiB and more: the length is a size_t, and the reader checksums a whole block in one call.  The buffer is a
// never-written anonymous mapping (zero pages) with a few sentinel bytes planted around 0, 2^31, 2^32 and the end, so it
// costs no memory; the reference is the harness's own table-driven CRC-32C over the same bytes.
static const struct { uint64_t len; int align; } HUGE_CASES[3] = {{1ull << 32, 0}, {(1ull << 32) + 13, 0}, {(1ull << 32) + 1100, 3}};
static Result run_huge(int idx) {
  return run_isolated([&](Result &r) {
    uint64_t len = HUGE_CASES[idx].len;
    int align = HUGE_CASES[idx].align;
    size_t maplen = (size_t)len + 8192;
    uint8_t *base = (uint8_t *)mmap(nullptr, maplen, PROT_READ | PROT_WRITE, MAP_PRIVATE | MAP_ANONYMOUS | MAP_NORESERVE, -1, 0);
    if (base == MAP_FAILED) {
      r.tag("huge_mapping_unavailable");
      return;
    }
    uint8_t *p = base + align;
    const uint64_t marks[] = {0, 1, 4095, (1ull << 31) - 1, 1ull << 31, (1ull << 32) - 9, (1ull << 32) - 1, 1ull << 32, (1ull << 32) + 5, len - 1};
    for (uint64_t m : marks)
      if (m < len) p[m] = (uint8_t)(0xA5 ^ (m * 131));
    uint32_t want = ref::crc32c_ref(p, (size_t)len);
    bool sse = my_crc32c_sse42_supported();
    uint32_t a = mtbl_crc32c(p, (size_t)len), b = my_crc32c_slicing(p, (size_t)len), c2 = sse ? my_crc32c_sse42(p, (size_t)len) : want;
    munmap(base, maplen);
    if (a != want) r.failf("mtbl_crc32c(len %llu, alignment %d) = %08x, standard CRC-32C is %08x", (unsigned long long)len, align, a, want);
    else if (b != want) r.failf("my_crc32c_slicing(len %llu, alignment %d) = %08x, standard CRC-32C is %08x", (unsigned long long)len, align, b, want);
    else if (c2 != want) r.failf("my_crc32c_sse42(len %llu, alignment %d) = %08x, standard CRC-32C is %08x", (unsigned long long)len, align, c2, want);
    r.nontrivial = true;
    r.tag("buffer_ge_4GiB");
  }, 1500);
}
// the function is called from many threads at once in real use (pool workers, reader threads): four threads checksum their
// own buffers (lengths 0..20000, every alignment) concurrently; each value is compared with the reference
static bool mt_round(uint64_t seed, int worker, long per, long long &n_eval) {
    struct MtJob {
      uint32_t seed;
      long n;
      long bad_len = -1;
      int bad_align = 0;
      uint32_t got = 0, want = 0;
      long done = 0;
    };
        std::vector<MtJob> jobs(4);
    std::vector<pthread_t> th(4);
    for (int t = 0; t < 4; t++) {
      jobs[(size_t)t].seed = (uint32_t)(seed * 7919u + (uint32_t)worker * 131u + (uint32_t)t) | 1;
      jobs[(size_t)t].n = per;
      pthread_create(&th[(size_t)t], nullptr, [](void *p) -> void * {
        MtJob *j = (MtJob *)p;
        uint32_t x = j->seed;
        auto nx = [&]() { x = x * 1664525u + 1013904223u; return x >> 8; };
        std::vector<uint8_t> buf(20000 + 16);
        for (long i = 0; i < j->n && j->bad_len < 0; i++) {
          size_t len = i % 4 == 0 ? nx() % 64 : i % 4 == 1 ? nx() % 1200 : nx() % 20000;
          int al = (int)(nx() % 8);
          uint8_t *p2 = buf.data() + al;
          for (size_t k = 0; k < len; k += 1 + k / 64) p2[k] = (uint8_t)nx();
          uint32_t want = ref::crc32c_ref(p2, len), got = mtbl_crc32c(p2, len);
          if (got != want) {
            j->bad_len = (long)len;
            j->bad_align = al;
            j->got = got;
            j->want = want;
          }
          j->done++;
        }
        return nullptr;
      }, &jobs[(size_t)t]);
    }
    for (auto &t : th) pthread_join(t, nullptr);
    for (auto &j : jobs) {
      n_eval += j.done;
      if (j.bad_len >= 0) {
        snprintf(g_err, sizeof g_err, "mtbl_crc32c(len %ld, alignment %d) = %08x while three other threads were checksumming their own buffers; the standard CRC-32C is %08x",
                 j.bad_len, j.bad_align, j.got, j.want);
        return false;
      }
    }
    return true;
}
// A caller that refills ONE buffer and checksums it again, inside one function compiled with optimisation against the
// repository's own mtbl.h: the value must follow the content (a declaration that lets the caller's compiler fold the two
// calls - e.g. __attribute__((const)) instead of pure - returns the first content's CRC for the second).
static bool check_refill(const uint8_t *data, size_t n) {
  static uint8_t buf[4096];
  if (n == 0 || n > sizeof buf) return true;
  memcpy(buf, data, n);
  uint32_t w1 = ref::crc32c_bitwise(buf, n);
  uint32_t a1 = mtbl_crc32c(buf, n);
  buf[n / 2] ^= 0x5a;
  buf[0] += 1;
  uint32_t w2 = ref::crc32c_bitwise(buf, n);
  uint32_t a2 = mtbl_crc32c(buf, n);
  if (a1 != w1 || a2 != w2) {
    snprintf(g_err, sizeof g_err, "one buffer of %zu bytes checksummed, modified in place and checksummed again in the same function: mtbl_crc32c returned %08x then %08x, the standard CRC-32C values are %08x then %08x",
             n, a1, a2, w1, w2);
    return false;
  }
  return true;
}
static Result run_case(const Case &c) {
  Result r;
  g_have_sse = my_crc32c_sse42_supported();
  if (c.huge >= 0) return run_huge(c.huge);
  if (c.mt) {
    long long n = 0;
    for (int w = 0; w < 8 && !r.fail; w++)
      if (!mt_round(1, w, 20000, n)) r.failf("%s", g_err);
    r.nontrivial = true;
    r.tag("four_threads_concurrently");
    return r;
  }
  if (c.early >= 0) {
    if (!check_early(c.early)) r.failf("%s", g_err);
    r.nontrivial = EARLY_LENS[c.early] >= 1;
    r.tag("called_before_library_initialisers");
    return r;
  }
  bytes b = c.buf.expand();
  uint32_t want = b.size() <= 4096 ? ref::crc32c_bitwise(U(b), b.size()) : ref::crc32c_ref(U(b), b.size());
  if (!check_buf(U(b), b.size(), c.align, want)) r.failf("%s", g_err);
  else if (!check_refill(U(b), b.size())) r.failf("%s", g_err);
  r.nontrivial = b.size() >= 1;
  if (b.size() >= 8) r.tag("len_ge8");
  if (b.size() % 8) r.tag("tail_bytes");
  if (c.align) r.tag("misaligned");
  if (!g_have_sse) r.tag("sse42_unavailable_skipped");
  return r;
}
static Case gen_case() {
  Case c;
  int l = weighted({30, 40, 25, 5});
  int n = l == 0 ? pick(0, 24) : l == 1 ? pick(0, 1100) : l == 2 ? pick(1000, 70000) : pick(70000, 1 << 20);
  if (n <= 24) {
    for (int i = 0; i < n; i++) c.buf.lit.push_back((char)pick(0, 255));
  } else {
    c.buf.glen = (uint32_t)n;
    c.buf.gkind = (uint8_t)weighted({70, 10, 10, 10});
    c.buf.gseed = pick_u32();
  }
  c.align = pick(0, 7);
  return c;
}

static int fail_out(const WorkerOpts &o, const bytes &b, int align) {
  Case c;
  c.buf = BStr::of(b);
  c.align = align;
  write_file(o.outdir + "/fail.case", c.ser());
  write_file(o.outdir + "/fail.msg", g_err);
  return 1;
}

static int extra_modes(const WorkerOpts &o, Stats &stats) {
  g_have_sse = my_crc32c_sse42_supported();
  long long n_eval = 0;
  uint32_t s = (uint32_t)(o.seed * 2654435761u) | 1;
  auto rnd = [&]() {
    s = s * 1664525u + 1013904223u;
    return (uint8_t)(s >> 24);
  };
  if (o.mode == "vectors") {
    if (o.worker == 0) {
      // RFC 3720 B.4 + the classic check value; and the table-driven reference against the bitwise one
      struct { bytes b; uint32_t crc; } v[5];
      v[0] = {bytes(32, '\0'), 0x8A9136AAu};
      v[1] = {bytes(32, (char)0xff), 0x62A8AB43u};
      for (int i = 0; i < 32; i++) v[2].b.push_back((char)i);
      v[2].crc = 0x46DD794Eu;
      for (int i = 31; i >= 0; i--) v[3].b.push_back((char)i);
      v[3].crc = 0x113FDB5Cu;
      v[4] = {bytes("123456789"), 0xE3069283u};
      for (auto &x : v) {
        if (ref::crc32c_bitwise(U(x.b), x.b.size()) != x.crc) { snprintf(g_err, sizeof g_err, "harness reference CRC disagrees with the RFC 3720 vector %08x", x.crc); return fail_out(o, x.b, 0); }
        if (!check_buf(U(x.b), x.b.size(), 0, x.crc)) return fail_out(o, x.b, 0);
        n_eval++;
      }
      for (int i = 0; i < N_EARLY; i++) {
        Case ec;
        ec.early = i;
        Result er = run_case(ec);
        stats.add(ec.ser(), er);
        if (er.fail) {
          write_file(o.outdir + "/fail.case", ec.ser());
          write_file(o.outdir + "/fail.msg", g_err);
          return 1;
        }
      }
      bytes big;
      for (int i = 0; i < 100000; i++) big.push_back((char)rnd());
      if (ref::crc32c_bitwise(U(big), big.size()) != ref::crc32c_ref(U(big), big.size())) { snprintf(g_err, sizeof g_err, "harness: table-driven reference != bitwise reference"); return fail_out(o, big, 0); }
    }
  } else if (o.mode == "mt") {
    if (!mt_round(o.seed, o.worker, o.geti("count", 4000), n_eval)) {
      Case mc;
      mc.mt = 1;
      write_file(o.outdir + "/fail.case", mc.ser());
      write_file(o.outdir + "/fail.msg", g_err);
      return 1;
    }
    stats.tags["four_threads_concurrently"] += 1;
  } else if (o.mode == "huge") {
    for (int i = o.worker; i < 3; i += o.nworkers) {
      Case hc;
      hc.huge = i;
      Result hr = run_case(hc);
      stats.add(hc.ser(), hr);
      if (hr.fail) {
        write_file(o.outdir + "/fail.case", hc.ser());
        write_file(o.outdir + "/fail.msg", hr.msg);
        return 1;
      }
    }
  } else if (o.mode == "lens") {
    // every length 0..1100 at every alignment 0..7, random content; lengths split over workers
    int reps = (int)o.geti("reps", 2);
    for (int len = o.worker; len <= 1100; len += o.nworkers)
      for (int rep = 0; rep < reps; rep++) {
        bytes b;
        for (int i = 0; i < len; i++) b.push_back((char)rnd());
        uint32_t want = ref::crc32c_bitwise(U(b), b.size());
        for (int al = 0; al < 8; al++) {
          if (!check_buf(U(b), b.size(), al, want)) return fail_out(o, b, al);
          n_eval++;
        }
      }
    stats.counters["lengths_x_alignments"] += n_eval;
  } else if (o.mode == "bytes") {
    // all 256 values of one byte at every position of buffers of length 1..Lmax, every alignment
    int Lmax = (int)o.geti("lmax", 40);
    for (int len = 1 + o.worker; len <= Lmax; len += o.nworkers) {
      bytes b;
      for (int i = 0; i < len; i++) b.push_back((char)rnd());
      for (int pos = 0; pos < len; pos++) {
        char saved = b[(size_t)pos];
        for (int val = 0; val < 256; val++) {
          b[(size_t)pos] = (char)val;
          uint32_t want = ref::crc32c_bitwise(U(b), b.size());
          for (int al = 0; al < 8; al++) {
            if (!check_buf(U(b), b.size(), al, want)) return fail_out(o, b, al);
            n_eval++;
          }
        }
        b[(size_t)pos] = saved;
      }
    }
    stats.counters["single_byte_sweeps"] += n_eval;
  } else if (o.mode == "big") {
    long long maxlen = o.geti("maxlen", 1 << 20);
    int count = (int)o.geti("count", 4);
    for (int i = 0; i < count; i++) {
      size_t len = (size_t)(((uint64_t)rnd() << 16 | (uint64_t)rnd() << 8 | rnd()) % (uint64_t)maxlen) + 1;
      bytes b(len, '\0');
      for (auto &ch : b) ch = (char)rnd();
      uint32_t want = ref::crc32c_ref(U(b), b.size());
      int al = rnd() % 8;
      if (!check_buf(U(b), b.size(), al, want)) {
        Case c;
        c.buf.glen = 0;
        snprintf(g_err + strlen(g_err), sizeof g_err - strlen(g_err), " (random buffer, worker seed %llu, index %d)", (unsigned long long)o.seed, i);
        return fail_out(o, b, al);
      }
      n_eval++;
    }
  } else return 2;
  stats.evaluations += n_eval;
  stats.counters["bulk_distinct_nontrivial"] += n_eval;
  stats.counters["sse42_path_checks"] += g_sse_checks;
  if (!g_have_sse) stats.tags["sse42_unavailable_skipped"]++;
  Case s1;
  s1.buf.glen = 9 + (uint32_t)o.worker;
  s1.align = o.worker % 8;
  stats.add(s1.ser(), run_case(s1));
  stats.evaluations--;
  return 0;
}

int main(int argc, char **argv) {
  g_death_cb = death_case;
  return vf_main<Case>(argc, argv, "C17", gen_case, run_case, extra_modes);
}
