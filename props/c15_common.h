// Shared by props/C15.cpp and fuzz/fuzz_compress.cpp: the round-trip oracle and the decoding of a libFuzzer input.
#pragma once
#include "../harness/vf.h"
using namespace vf;

static const char *NAMES[] = {"none", "snappy", "zlib", "lz4", "lz4hc", "zstd"};

// one compress/decompress round trip, in-process; false + message on violation
static bool roundtrip(int algo, int entry, int level, const bytes &in, std::string &err) {
  // input in an exact-size heap block
  uint8_t *src = (uint8_t *)malloc(in.size() ? in.size() : 1);
  if (!in.empty()) memcpy(src, in.data(), in.size());
  uint8_t *out = nullptr;
  size_t outn = 0;
  mtbl_res cr = entry == 0 ? mtbl_compress((mtbl_compression_type)algo, src, in.size(), &out, &outn)
                           : mtbl_compress_level((mtbl_compression_type)algo, level, src, in.size(), &out, &outn);
  bool ok = true;
  if (algo < 1 || algo > 5) {
    if (cr == mtbl_res_success) {
      err = "compression type " + std::to_string(algo) + " is not a compression algorithm but mtbl_compress reported success";
      ok = false;
      free(out);
    }
    uint8_t *o2 = nullptr;
    size_t n2 = 0;
    if (ok && mtbl_decompress((mtbl_compression_type)algo, src, in.size(), &o2, &n2) == mtbl_res_success) {
      err = "mtbl_decompress accepted compression type " + std::to_string(algo);
      ok = false;
      free(o2);
    }
    free(src);
    return ok;
  }
  if (cr == mtbl_res_success) {
    // feed decompress exactly what compress returned, from an exact-size block
    uint8_t *comp = (uint8_t *)malloc(outn ? outn : 1);
    if (outn) memcpy(comp, out, outn);
    free(out);
    uint8_t *back = nullptr;
    size_t backn = 0;
    mtbl_res dr = mtbl_decompress((mtbl_compression_type)algo, comp, outn, &back, &backn);
    if (dr != mtbl_res_success) {
      err = "mtbl_decompress failed on the output of mtbl_compress" + std::string(entry ? "_level" : "") + " (" + NAMES[algo] + ", level " + std::to_string(level) +
            ", input " + std::to_string(in.size()) + " bytes, compressed " + std::to_string(outn) + " bytes)";
      ok = false;
    } else {
      if (backn != in.size() || (backn && memcmp(back, in.data(), backn) != 0)) {
        err = "round trip through " + std::string(NAMES[algo]) + " level " + std::to_string(level) + " changed the data: " + std::to_string(in.size()) + " bytes in, " +
              std::to_string(backn) + " bytes out";
        ok = false;
      }
      free(back);
    }
    free(comp);
  }
  free(src);
  return ok;
}


// libFuzzer input layout: [algo][entry][level: 4 bytes LE] then the buffer to compress
static void decode_fuzz15(const uint8_t *d, size_t n, int &algo, int &entry, int &level, bytes &buf) {
  algo = n > 0 ? d[0] % 7 : 2;       // 0 and 6 are not algorithms: must be refused
  entry = n > 1 ? d[1] & 1 : 0;
  uint32_t lv = 0;
  for (size_t i = 0; i < 4 && 2 + i < n; i++) lv |= (uint32_t)d[2 + i] << (8 * i);
  level = (int)lv;
  if (n > 1 && (d[1] & 2)) level = (int)(int8_t)(lv & 0xff);  // small levels most of the time
  // expensive levels only on small buffers so that the bound is size, not time
  buf.assign(n > 6 ? (const char *)d + 6 : "", n > 6 ? n - 6 : 0);
  if ((algo == 4 || algo == 5) && (level > 12 || level < -1000) && buf.size() > 4096) buf.resize(4096);
}
