// C18 — destroying all objects releases every descriptor, mapping, temp file, allocation
#define VF_MAIN
#include "mergecommon.h"
#include "../harness/shims/shims.h"
#include <dirent.h>
#include <sanitizer/allocator_interface.h>
#include <sanitizer/lsan_interface.h>
using namespace vf;

// A history is a list of scenarios; each scenario creates objects, uses them for a generated
// number of steps and destroys everything it created (iterators -> mergers/sorters/filesets ->
// readers -> pools), with the destroy point of each object chosen by the parameters.
struct Scn {
  std::string kind;  // rw | merge | sort | fileset | pool
  std::vector<long> p;
};
struct Case {
  std::vector<Scn> scns;
  bool valid() const {
    if (scns.size() > 12) return false;
    for (auto &s : scns) {
      if (s.kind != "rw" && s.kind != "merge" && s.kind != "sort" && s.kind != "fileset" && s.kind != "pool") return false;
      for (long v : s.p)
        if (v < 0 || v > 100000) return false;
    }
    return true;
  }
  std::string ser() const {
    Out o;
    o << "property C18\n";
    for (auto &s : scns) {
      o << "scn " << s.kind;
      for (long v : s.p) o << " " << v;
      o << "\n";
    }
    return o.str();
  }
  static Case parse(const std::string &t) {
    Case c;
    for (auto &row : Lines::parse(t).rows)
      if (row[0] == "scn" && row.size() >= 2) {
        Scn s;
        s.kind = row[1];
        for (size_t i = 2; i < row.size(); i++) s.p.push_back(atol(row[i].c_str()));
        c.scns.push_back(s);
      }
    return c;
  }
};
static long P(const Scn &s, size_t i, long dflt = 0) { return i < s.p.size() ? s.p[i] : dflt; }

static Case gen_case() {
  Case c;
  int n = weighted({45, 30, 15, 10}) + 1;
  for (int i = 0; i < n; i++) {
    Scn s;
    switch (weighted({22, 22, 34, 17, 5})) {
      case 0:
        s.kind = "rw";  // entries, pool(0 none,1 init0,2..), refused adds, iterators, steps, non-table?, comp
        s.p = {chance(15) ? pick(100, 400) : pick(0, 60), one_of<long>({0, 0, 1, 2, 3, 5}), pick(0, 3), pick(0, 4), pick(0, 70), chance(12), pick(0, 5)};
        break;
      case 1:
        s.kind = "merge";  // sources, keys per source, user sources?, fail_at (0 = never), iterators, steps, iterator kind mix
        s.p = {pick(0, 5), pick(0, 12), chance(30), chance(30) ? pick(1, 6) : 0, pick(0, 3), pick(0, 30), pick(0, 3)};
        break;
      case 2:
        s.kind = "sort";  // adds, max_memory class, pool, universe, action (0 destroy now,1 iter partial,2 drain,3 write,4 iter then abandon after k), steps, merge fail_at
        s.p = {pick(0, 60), pick(0, 3), one_of<long>({0, 0, 0, 1, 2, 3, 4}), pick(1, 3), pick(0, 4), pick(0, 40), 0};
        if (s.p[2] == 0 && chance(25)) s.p[6] = pick(1, 8);
        break;
      case 3:
        s.kind = "fileset";  // tables, missing entries, non-table entries, dup?, iterators per handle, steps, reload_now between?, destroy order
        s.p = {pick(0, 4), chance(30), chance(30), chance(60), pick(0, 2), pick(0, 20), chance(50), pick(0, 1), weighted({40, 20, 20, 20})};
        break;
      default:
        s.kind = "pool";  // threads, writers sharing it, entries each
        s.p = {pick(0, 4), pick(0, 3), pick(0, 40)};
    }
    c.scns.push_back(s);
  }
  return c;
}

// ---------------------------------------------------------------- resource census
struct Census {
  std::set<std::string> fds;
  std::multiset<std::string> maps;
  int threads = 0;
  size_t heap = 0;
};
static Census census() {
  Census c;
  DIR *dp = opendir("/proc/self/fd");
  int dfd = dirfd(dp);
  while (struct dirent *e = readdir(dp)) {
    if (e->d_name[0] == '.') continue;
    if (atoi(e->d_name) == dfd) continue;
    char link[512];
    std::string p = std::string("/proc/self/fd/") + e->d_name;
    ssize_t n = readlink(p.c_str(), link, sizeof link - 1);
    link[n > 0 ? n : 0] = 0;
    c.fds.insert(std::string(e->d_name) + " -> " + link);
  }
  closedir(dp);
  FILE *f = fopen("/proc/self/maps", "r");
  char line[1024];
  while (f && fgets(line, sizeof line, f)) {
    char path[800] = "";
    unsigned long a, b, off, ino;
    char perms[8], dev[16];
    if (sscanf(line, "%lx-%lx %7s %lx %15s %lu %799[^\n]", &a, &b, perms, &off, dev, &ino, path) >= 6) {
      const char *pp = path;
      while (*pp == ' ') pp++;
      std::string ps = pp;
      if (ps.empty() || ps[0] == '[') continue;
      if (ps.find(".so") != std::string::npos || ps.find("/bin/") != std::string::npos) continue;  // the executable and its libraries
      if (ps.find("memfd:") != std::string::npos || ps.find("/vf-") != std::string::npos || ps.find(".mtbl") != std::string::npos) c.maps.insert(ps);
    }
  }
  if (f) fclose(f);
  dp = opendir("/proc/self/task");
  while (struct dirent *e = readdir(dp))
    if (e->d_name[0] != '.') c.threads++;
  closedir(dp);
  c.heap = __sanitizer_get_current_allocated_bytes();
  return c;
}

// ---------------------------------------------------------------- scenarios
static uint32_t g_s = 1;
static uint32_t rnd() { return lcg(g_s); }

static int make_table_fd(int n, int comp, const char *pfx, int pool, int refused) {
  WConfig c;
  c.comp = comp % 6;
  // half of the tables use big blocks of highly compressible values (decompression then has to grow its output buffer)
  bool squeezable = (n + refused) % 2 == 0;
  c.block_size = squeezable ? 8192 : 1024;
  c.pool = pool == 0 ? -1 : pool == 1 ? 0 : pool - 1;
  // key / layout shapes: buffers inside the writer, the block builder and the iterators start small (64 / 256 bytes, 64
  // restart offsets) and are regrown and reset as they go; each shape crosses one of those first-growth thresholds
  int shape = (n + comp) % 4;  // 0 short keys; 1 keys > 256 bytes; 2 keys > 64 bytes; 3 restart interval 1 with hundreds of entries per block
  std::string stem = pfx;
  if (shape == 1) stem += std::string(300, 'L');
  if (shape == 2) stem += std::string(66, 'M');
  if (shape == 3) {
    c.restart = 1;
    c.block_size = 8192;
    squeezable = false;
  }
  KVs kv;
  for (int i = 0; i < n; i++) {
    char k[32];
    snprintf(k, sizeof k, "%04d", i);
    BStr v;
    v.glen = shape == 3 ? 4 : squeezable ? 300 + (uint32_t)(i % 5) * 100 : 20 + (uint32_t)(i % 7) * 30;
    v.gkind = squeezable ? 2 : 0;
    v.gseed = (uint32_t)i;
    kv.emplace_back(bytes(stem + k), v.expand());
    if (refused && i % 5 == 4)
      for (int j = 0; j < refused; j++) kv.emplace_back(bytes(stem + k), bytes("refused"));
  }
  return write_table(c, kv);
}

static void step_iter(struct mtbl_iter *it, long steps, bool seek_too) {
  const uint8_t *k, *v;
  size_t lk, lv;
  for (long i = 0; i < steps; i++) {
    if (seek_too && i == steps / 2) {
      bytes t("k0003");
      if (mtbl_iter_seek(it, U(t), t.size())) {}
    }
    if (mtbl_iter_next(it, &k, &lk, &v, &lv) != mtbl_res_success) break;
  }
}

static void scn_rw(const Scn &s, Result &r) {
  int n = (int)P(s, 0), pool = (int)P(s, 1), refused = (int)P(s, 2), niters = (int)P(s, 3);
  long steps = P(s, 4);
  bool nontable = P(s, 5);
  int fd = make_table_fd(n, (int)P(s, 6), "k", pool, refused);
  if (nontable) {
    // a file that does not open as a table: must report NULL and leave nothing behind
    int bad = fd_from_bytes(bytes(700, 'x'));
    struct mtbl_reader *rd = mtbl_reader_init_fd(bad, nullptr);
    if (rd) {
      r.failf("garbage opened as a table");
      mtbl_reader_destroy(&rd);
    }
    close(bad);
    std::string miss = g_tmpdir + "/does-not-exist.mtbl";
    rd = mtbl_reader_init(miss.c_str(), nullptr);
    if (rd) mtbl_reader_destroy(&rd);
    r.tag("call_reported_failure");
  }
  struct mtbl_reader *rd = open_reader_fd(fd, rnd() % 2, rnd() % 2);
  if (!rd) {
    r.failf("reader rejects a written table");
    close(fd);
    return;
  }
  std::vector<struct mtbl_iter *> its;
  for (int i = 0; i < niters; i++) {
    IterSpec sp;
    sp.kind = (int)(rnd() % 4);
    sp.a = "k0002";
    sp.b = "k0030";
    if (sp.kind == 2) sp.a = "k00";
    struct mtbl_iter *it = open_iter(mtbl_reader_source(rd), sp);
    if (it) its.push_back(it);
  }
  for (auto it : its) step_iter(it, steps, rnd() % 3 == 0);
  if (!its.empty() && steps < n) r.tag("iterator_abandoned_before_drained");
  // destroy in a parameter-dependent order
  if (rnd() % 2) std::reverse(its.begin(), its.end());
  for (auto &it : its) mtbl_iter_destroy(&it);
  mtbl_reader_destroy(&rd);
  close(fd);
  if (refused) r.tag("call_reported_failure");
}

static void scn_merge(const Scn &s, Result &r) {
  int ns = (int)P(s, 0), nk = (int)P(s, 1);
  bool user = P(s, 2);
  long fail_at = P(s, 3);
  int niters = (int)P(s, 4);
  long steps = P(s, 5);
  SrcFamily fam;
  for (int i = 0; i < ns; i++) {
    SrcSpec sp;
    sp.kind = user && i % 2 ? 1 : 0;
    std::set<bytes, BLess> ks;
    for (int j = 0; j < nk; j++) {
      bytes k;
      int l = (int)(rnd() % 3);
      for (int q = 0; q < l; q++) k.push_back("ab\xff"[rnd() % 3]);
      ks.insert(k);
    }
    sp.keys.assign(ks.begin(), ks.end());
    fam.srcs.push_back(sp);
  }
  LiveSources ls;
  if (!ls.build(fam, r)) return;
  MergeClos mc;
  mc.keep_log = false;
  if (fail_at > 0) {
    mc.fail_at = fail_at;
    mc.fail_style = (int)(P(s, 1) % 2);
  }
  struct mtbl_merger_options *mo = mtbl_merger_options_init();
  mtbl_merger_options_set_merge_func(mo, concat_merge, &mc);
  struct mtbl_merger *mg = mtbl_merger_init(mo);
  mtbl_merger_options_destroy(&mo);
  for (auto src : ls.sources) mtbl_merger_add_source(mg, src);
  std::vector<struct mtbl_iter *> its;
  for (int i = 0; i < niters; i++) {
    IterSpec sp;
    sp.kind = (int)((P(s, 6) + i) % 4);
    sp.a = "a";
    sp.b = "b\xff";
    struct mtbl_iter *it = open_iter(mtbl_merger_source(mg), sp);
    if (it) its.push_back(it);
  }
  for (auto it : its) step_iter(it, steps, rnd() % 3 == 0);
  if (fail_at > 0 && mc.calls >= fail_at) r.tag("merge_callback_failed");
  if (!its.empty()) r.tag("iterator_abandoned_before_drained");
  for (auto &it : its) mtbl_iter_destroy(&it);
  // mtbl_source_write into a writer: one that takes everything (s.p[6] odd) or one that already holds a key above all of
  // the merger's, so that the very first entry is refused and the call reports failure - the iterator mtbl_source_write
  // made for itself has to go either way
  if (P(s, 6) >= 2) {
    int wfd = new_memfd("vf-c18-sw");
    struct mtbl_writer *w = mtbl_writer_init_fd(wfd, nullptr);
    bool refuse = P(s, 6) % 2 == 0;
    if (refuse) {
      bytes top(4, (char)0xff);
      (void)mtbl_writer_add(w, U(top), top.size(), U(top), 1);
    }
    mtbl_res wr = mtbl_source_write(mtbl_merger_source(mg), w);
    if (wr != mtbl_res_success) r.tag("call_reported_failure");
    r.tag(refuse ? "source_write_into_refusing_writer" : "source_write");
    mtbl_writer_destroy(&w);
    close(wfd);
  }
  mtbl_merger_destroy(&mg);
}

static void scn_sort(const Scn &s, Result &r, const std::string &tdir) {
  int adds = (int)P(s, 0), memclass = (int)P(s, 1), pool = (int)P(s, 2), universe = std::max(1, (int)P(s, 3, 1)), action = (int)P(s, 4);
  long steps = P(s, 5), fail_at = pool == 0 ? P(s, 6) : 0;
  PoolHolder ph(pool == 0 ? -1 : pool - 1);
  MergeClos mc;
  mc.keep_log = false;
  if (fail_at > 0) {
    mc.fail_at = fail_at;
    mc.fail_style = adds % 2;
  }
  struct mtbl_sorter_options *so = mtbl_sorter_options_init();
  mtbl_sorter_options_set_temp_dir(so, tdir.c_str());
  size_t mm = memclass == 0 ? 1 : memclass == 1 ? 200 : memclass == 2 ? 1500 : (1u << 30);
  mtbl_sorter_options_set_max_memory(so, mm);
  mtbl_sorter_options_set_merge_func(so, concat_merge, &mc);
  if (ph.p) mtbl_sorter_options_set_threadpool(so, ph.p);
  struct mtbl_sorter *st = mtbl_sorter_init(so);
  mtbl_sorter_options_destroy(&so);
  vs_mkstemp_calls = 0;
  bool add_failed = false;
  for (int i = 0; i < adds; i++) {
    char k[16];
    snprintf(k, sizeof k, "s%02u", (unsigned)(rnd() % (unsigned)(universe * 8)));
    bytes v = token(0, i);
    if (mtbl_sorter_add(st, (const uint8_t *)k, strlen(k), U(v), v.size()) != mtbl_res_success) {
      add_failed = true;  // reported failure (failing merge callback while spilling)
      break;
    }
  }
  if (add_failed) r.tag("call_reported_failure");
  struct mtbl_iter *it = nullptr;
  if (!add_failed) {
    if (action == 1 || action == 2 || action == 4) {
      it = mtbl_sorter_iter(st);
      if (it) step_iter(it, action == 2 ? 1000000 : steps, false);
      else r.tag("call_reported_failure");
      if (it && action != 2) r.tag("iterator_abandoned_before_drained");
    } else if (action == 3) {
      int fd = new_memfd("vf-sortout");
      struct mtbl_writer *w = mtbl_writer_init_fd(fd, nullptr);
      if (mtbl_sorter_write(st, w) != mtbl_res_success) r.tag("call_reported_failure");
      mtbl_writer_destroy(&w);
      close(fd);
    } else if (pool > 1 && vs_mkstemp_calls >= 0 && adds > 0 && memclass < 3) r.tag("pooled_sorter_destroyed_with_jobs_in_flight");
  }
  int chunks = vs_mkstemp_calls;
  if (it) mtbl_iter_destroy(&it);
  mtbl_sorter_destroy(&st);
  if (chunks >= 2) r.tag("sorter_multi_chunk");
  if (pool > 1) r.tag("pooled_sorter");
  r.counters["sorter_chunks"] += chunks;
}

static bool filter_even(const char *fname, void *) {
  size_t n = strlen(fname);
  return n >= 6 && (fname[n - 6] - '0') % 2 == 0;
}
static void scn_fileset(const Scn &s, Result &r, const std::string &dir) {
  int nt = (int)P(s, 0);
  bool missing = P(s, 1), nontable = P(s, 2), dup = P(s, 3);
  int niters = (int)P(s, 4);
  long steps = P(s, 5);
  bool reload = P(s, 6);
  int order = (int)P(s, 7);
  std::string sub = dir + "/fs" + std::to_string(rnd() % 100000);
  mkdir(sub.c_str(), 0700);
  std::string setfile = sub + "/set.fileset";
  std::string lines;
  for (int i = 0; i < nt; i++) {
    std::string p = sub + "/t" + std::to_string(i) + ".mtbl";
    WConfig c;
    c.comp = i % 3;
    c.block_size = 1024;
    KVs kv;
    for (int j = 0; j < 12; j++) {
      char k[16];
      snprintf(k, sizeof k, "f%02d", j * (i + 1));
      kv.emplace_back(bytes(k), token(i, j));
    }
    std::string outp;
    c.by_path = true;
    int fd = write_table(c, kv, nullptr, &outp);
    close(fd);
    rename(outp.c_str(), p.c_str());
    lines += (i % 2 ? p : "t" + std::to_string(i) + ".mtbl") + "\n";
  }
  if (missing) lines += "not-there.mtbl\n";
  if (nontable) {
    // things a setfile can name that are not tables: garbage, a zero-length file (a table still being copied in), a directory
    write_file(sub + "/junk.mtbl", std::string(900, 'j'));
    lines += "junk.mtbl\n";
    if (nt % 2 == 0) {
      write_file(sub + "/empty.mtbl", std::string());
      lines += "empty.mtbl\n";
    }
    if (nt % 3 == 0) {
      mkdir((sub + "/adir.mtbl").c_str(), 0700);
      lines += "adir.mtbl\n";
    }
    r.tag("call_reported_failure");
  }
  write_file(setfile, lines);
  MergeClos mc;
  mc.keep_log = false;
  struct mtbl_fileset_options *fo = mtbl_fileset_options_init();
  mtbl_fileset_options_set_merge_func(fo, concat_merge, &mc);
  mtbl_fileset_options_set_reload_interval(fo, 0);
  struct mtbl_fileset *fs = mtbl_fileset_init(setfile.c_str(), fo);
  struct mtbl_fileset *fs2 = nullptr;
  if (dup) {
    mtbl_fileset_options_set_filename_filter_func(fo, filter_even, nullptr);
    fs2 = mtbl_fileset_dup(fs, fo);
    r.tag("fileset_dup");
  }
  mtbl_fileset_options_destroy(&fo);
  std::vector<struct mtbl_iter *> its;
  for (int h = 0; h < 2; h++) {
    struct mtbl_fileset *f = h ? fs2 : fs;
    if (!f) continue;
    for (int i = 0; i < niters; i++) {
      IterSpec sp;
      sp.kind = (int)(rnd() % 4);
      sp.a = "f0";
      sp.b = "f3";
      struct mtbl_iter *it = open_iter(mtbl_fileset_source(f), sp);
      if (it) its.push_back(it);
    }
  }
  for (auto it : its) step_iter(it, steps, false);
  for (auto &it : its) mtbl_iter_destroy(&it);  // iterators before their handle
  // several rounds of setfile changes (members added back and removed again) each followed by a forced reload
  std::vector<std::string> all_lines;
  {
    std::istringstream ls(lines);
    std::string l;
    while (std::getline(ls, l)) all_lines.push_back(l);
  }
  long rounds = P(s, 8);
  for (long rd = 0; rd < rounds && !all_lines.empty(); rd++) {
    std::string subset;
    uint32_t mask = rnd();
    for (size_t i = 0; i < all_lines.size(); i++)
      if ((mask >> i) & 1) subset += all_lines[i] + "\n";
    write_file(setfile, subset);
    struct timespec ts[2] = {{1900000000 + rd * 10, 0}, {1900000000 + rd * 10, 0}};
    utimensat(AT_FDCWD, setfile.c_str(), ts, 0);
    mtbl_fileset_reload_now(rd % 2 && fs2 ? fs2 : fs);
    struct mtbl_iter *it = mtbl_source_iter(mtbl_fileset_source(fs));
    if (it) {
      step_iter(it, 3, false);
      mtbl_iter_destroy(&it);
    }
    r.tag("fileset_multi_reload");
  }
  if (reload) {
    // change the setfile (drop the first table) and force a reload through one handle, then read through the other
    std::string rest = lines.substr(lines.find('\n') + 1);
    write_file(setfile, rest);
    struct timespec ts[2] = {{2000000000, 0}, {2000000000, 0}};
    utimensat(AT_FDCWD, setfile.c_str(), ts, 0);
    mtbl_fileset_reload_now(fs);
    if (fs2) {
      mtbl_fileset_reload_now(fs2);
      struct mtbl_iter *it = mtbl_source_iter(mtbl_fileset_source(fs2));
      if (it) {
        step_iter(it, 5, false);
        mtbl_iter_destroy(&it);
      }
    }
    r.tag("fileset_reloaded");
  }
  if (order && fs2) {
    mtbl_fileset_destroy(&fs);
    mtbl_fileset_destroy(&fs2);
  } else {
    if (fs2) mtbl_fileset_destroy(&fs2);
    mtbl_fileset_destroy(&fs);
  }
  rm_rf(sub);
}

static void scn_pool(const Scn &s, Result &r) {
  int threads = (int)P(s, 0), writers = (int)P(s, 1), entries = (int)P(s, 2);
  struct mtbl_threadpool *tp = mtbl_threadpool_init((size_t)threads);
  std::vector<struct mtbl_writer *> ws;
  std::vector<int> fds;
  for (int i = 0; i < writers; i++) {
    struct mtbl_writer_options *wo = mtbl_writer_options_init();
    mtbl_writer_options_set_block_size(wo, 1024);
    mtbl_writer_options_set_threadpool(wo, tp);
    int fd = new_memfd("vf-pooled");
    ws.push_back(mtbl_writer_init_fd(fd, wo));
    fds.push_back(fd);
    mtbl_writer_options_destroy(&wo);
  }
  for (int e = 0; e < entries; e++)
    for (auto w : ws) {
      char k[16];
      snprintf(k, sizeof k, "p%04d", e);
      bytes v(150, 'v');
      if (mtbl_writer_add(w, (const uint8_t *)k, strlen(k), U(v), v.size())) {}
    }
  for (auto &w : ws) mtbl_writer_destroy(&w);
  for (int fd : fds) close(fd);
  mtbl_threadpool_destroy(&tp);
  if (threads > 0 && writers > 1) r.tag("writers_sharing_a_pool");
}

static void run_scenarios(const Case &c, Result &r, const std::string &tdir) {
  for (auto &s : c.scns) {
    g_s = 12345;
    for (long v : s.p) g_s = g_s * 31 + (uint32_t)v;
    if (s.kind == "rw") scn_rw(s, r);
    else if (s.kind == "merge") scn_merge(s, r);
    else if (s.kind == "sort") scn_sort(s, r, tdir);
    else if (s.kind == "fileset") scn_fileset(s, r, tdir);
    else if (s.kind == "pool") scn_pool(s, r);
    r.tag("scn_" + s.kind);
    if (r.fail) return;
  }
}

static int count_dir(const std::string &d) {
  int n = 0;
  DIR *dp = opendir(d.c_str());
  if (!dp) return -1;
  while (struct dirent *e = readdir(dp))
    if (strcmp(e->d_name, ".") && strcmp(e->d_name, "..")) n++;
  closedir(dp);
  return n;
}

static Result run_case(const Case &c) {
  return run_isolated([&](Result &r) {
    ensure_tmpdir();
    std::string tdir = g_tmpdir + "/c18-" + std::to_string(getpid());
    mkdir(tdir.c_str(), 0700);
    // warm-up so that lazily initialised runtime state (stdio buffers, locale, pthread keys, dlopen of
    // compression libraries) is not mistaken for a leak
    {
      // populate glibc's thread-stack/TLS cache: it keeps the dtv of exited threads allocated for reuse
      const int NT = 32;
      pthread_t th[NT];
      static pthread_barrier_t bar;
      pthread_barrier_init(&bar, nullptr, NT);
      for (int i = 0; i < NT; i++)
        pthread_create(&th[i], nullptr, [](void *) -> void * {
          pthread_barrier_wait(&bar);
          return nullptr;
        }, nullptr);
      for (int i = 0; i < NT; i++) pthread_join(th[i], nullptr);
      pthread_barrier_destroy(&bar);
    }
    {
      Case w = Case::parse("scn rw 3 2 0 1 2 0 2\nscn sort 3 0 0 1 2 0 0\nscn merge 2 2 1 0 1 1 0\nscn fileset 1 0 0 1 1 1 0 0\nscn pool 1 1 1\n");
      Result wr;
      run_scenarios(w, wr, tdir);
    }
    // a joined thread can linger in /proc/self/task for a moment: wait until only the main thread is left
    auto settle = [&]() {
      Census cs = census();
      for (int i = 0; i < 100 && cs.threads > 1; i++) {
        usleep(5000);
        cs = census();
      }
      return cs;
    };
    std::string keep;
    keep.reserve(1 << 16);  // allocated before the first measurement so that it does not count
    Census before = settle();
    size_t heap0 = __sanitizer_get_current_allocated_bytes();
    {
      // every harness object created while the history runs lives in this scope and is gone before heap1 is read
      Result inner;
      run_scenarios(c, inner, tdir);
      std::string tmp = inner.ser();
      keep.assign(tmp.data(), tmp.size());  // copies into the pre-reserved buffer: no allocation survives this scope
    }
    size_t heap1 = __sanitizer_get_current_allocated_bytes();
    Census after = settle();
    int left = count_dir(tdir);
    int leaks = __lsan_do_recoverable_leak_check();
    {
      Result inner;
      Result::parse(keep, inner);
      r.tags = inner.tags;
      r.counters = inner.counters;
      if (inner.fail) r.failf("%s", inner.msg.c_str());
    }
    if (!r.fail) {
      for (auto &f : after.fds)
        if (!before.fds.count(f)) {
          r.failf("file descriptor left open after everything was destroyed: %s", f.c_str());
          break;
        }
    }
    if (!r.fail && after.maps != before.maps) {
      std::string extra;
      for (auto &m : after.maps)
        if (before.maps.count(m) < after.maps.count(m)) extra = m;
      r.failf("memory mapping left behind after everything was destroyed: %s (%zu mappings before, %zu after)", extra.c_str(), before.maps.size(), after.maps.size());
    }
    if (!r.fail && after.threads > before.threads) r.failf("%d threads before, %d still alive 0.5 s after everything was destroyed", before.threads, after.threads);
    if (!r.fail && left != 0) r.failf("%d file(s) left in the temporary directory", left);
    if (!r.fail && leaks) {
      fflush(stderr);
      std::string rep = read_file(g_tmpdir + "/child.err");
      size_t p = rep.find("ERROR: LeakSanitizer");
      if (p != std::string::npos) rep = rep.substr(p);
      r.failf("LeakSanitizer reports leaked allocations after everything was destroyed: %s", rep.substr(0, 1500).c_str());
    }
    long long delta = (long long)heap1 - (long long)heap0;
    if (getenv("VF_DEBUG")) fprintf(stdout, "DEBUG heap0=%zu heap1=%zu leaks=%d tags=%zu\n", heap0, heap1, leaks, r.tags.size());
    if (!r.fail && delta > 0)
      r.failf("%lld bytes of heap are still allocated after a history that destroyed every object it created (allocator byte count before/after; LeakSanitizer did not flag them, e.g. "
              "because a stale pointer is still on the stack)", delta);
    rm_rf(tdir);
    bool nt = false;
    for (auto &t : r.tags)
      if (t == "sorter_multi_chunk" || t == "iterator_abandoned_before_drained" || t == "call_reported_failure") nt = true;
    r.nontrivial = nt;
  });
}

int main(int argc, char **argv) {
  g_history_enabled = true;  // process-history mode 2 (harness/vf.h): a shadow of the case runs first in the same process
  return vf_main<Case>(argc, argv, "C18", gen_case, run_case);
}
