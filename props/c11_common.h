// Shared by props/C11.cpp and fuzz/fuzz_encoding.cpp: case type (logical content + encoding choices), the independent
// encoder glue, the oracle (full iteration, derived lookups, histories) and the decoding of a libFuzzer input into a case.
#pragma once
#include "readcommon.h"
#include "../harness/refcodec.h"
using namespace vf;

struct BlockChoice {
  int n = 1;            // entries in this block
  int restart_mode = 0; // 0 every entry, 1 only entry 0, 2 every k (k = restart_k), 3 irregular (bitmask restart_bits)
  int restart_k = 2;
  uint32_t restart_bits = 0;
  int share_mode = 0;   // 0 maximal (LCP), 1 none, 2 pseudo-random amount <= LCP (seeded by share_seed)
  uint32_t share_seed = 0;
  int sep_mode = 0;     // 0 last key, 1 last key + 0xff.., 2 just below the next block's first key, 3 shortest separator, 4 last + one symbol
};
struct Case {
  int version = 2, algo = 0, level = 0;
  int prefix_len = 0;
  int index_restart = 16;
  int zlib_wbits = 0;  // see ref::EFile::zlib_wbits
  std::vector<SEntry> entries;
  std::vector<BlockChoice> blocks;  // partition: consumed in order; leftovers go to a final block
  std::vector<IterSpec> iters;
  std::vector<Op> ops;
  uint32_t qseed = 1;
  bytes fuzz;  // when non-empty: a libFuzzer input (decode_fuzz11)
  bool valid() const {
    if (version < 1 || version > 2 || algo < 0 || algo > 5 || prefix_len < 0 || prefix_len > 100000 || index_restart < 1) return false;
    for (auto &b : blocks)
      if (b.n < 1 || b.restart_k < 1) return false;
    if (iters.size() > 4) return false;
    for (auto &o : ops)
      if (o.it < 0 || o.it >= (int)std::max<size_t>(1, iters.size())) return false;
    KVs kv = expand_entries(entries);
    for (size_t i = 1; i < kv.size(); i++)
      if (bcmp3(kv[i - 1].first, kv[i].first) >= 0) return false;
    return true;
  }
  std::string ser() const {
    Out o;
    o << "property C11\n";
    if (!fuzz.empty()) {
      o << "fuzz " << hex(fuzz) << "\n";
      return o.str();
    }
    o << "format version=" << version << " algo=" << algo << " level=" << level << " prefix_len=" << prefix_len << " index_restart=" << index_restart
      << " qseed=" << qseed << " zlib_wbits=" << zlib_wbits << "\n";
    for (auto &b : blocks)
      o << "block n=" << b.n << " restart_mode=" << b.restart_mode << " restart_k=" << b.restart_k << " restart_bits=" << b.restart_bits
        << " share_mode=" << b.share_mode << " share_seed=" << b.share_seed << " sep_mode=" << b.sep_mode << "\n";
    for (size_t i = 0; i < iters.size(); i++) o << "iter " << i << " " << iters[i].ser() << "\n";
    ser_entries(o, entries);
    for (auto &op : ops) o << op.ser() << "\n";
    return o.str();
  }
  static Case parse(const std::string &t) {
    Case c;
    for (auto &row : Lines::parse(t).rows) {
      auto kvs = [&](std::function<void(const std::string &, long long)> f) {
        for (size_t i = 1; i < row.size(); i++) {
          size_t e = row[i].find('=');
          if (e != std::string::npos) f(row[i].substr(0, e), atoll(row[i].c_str() + e + 1));
        }
      };
      if (row[0] == "format")
        kvs([&](const std::string &k, long long v) {
          if (k == "version") c.version = (int)v;
          else if (k == "algo") c.algo = (int)v;
          else if (k == "level") c.level = (int)v;
          else if (k == "prefix_len") c.prefix_len = (int)v;
          else if (k == "index_restart") c.index_restart = (int)v;
          else if (k == "qseed") c.qseed = (uint32_t)v;
          else if (k == "zlib_wbits") c.zlib_wbits = (v >= 9 && v <= 15) ? (int)v : 0;
        });
      else if (row[0] == "block") {
        BlockChoice b;
        kvs([&](const std::string &k, long long v) {
          if (k == "n") b.n = (int)v;
          else if (k == "restart_mode") b.restart_mode = (int)v;
          else if (k == "restart_k") b.restart_k = (int)v;
          else if (k == "restart_bits") b.restart_bits = (uint32_t)v;
          else if (k == "share_mode") b.share_mode = (int)v;
          else if (k == "share_seed") b.share_seed = (uint32_t)v;
          else if (k == "sep_mode") b.sep_mode = (int)v;
        });
        c.blocks.push_back(b);
      } else if (row[0] == "entry") c.entries.push_back(parse_entry(row));
      else if (row[0] == "fuzz" && row.size() > 1) c.fuzz = unhex(row[1]);
      else if (row[0] == "iter") c.iters.push_back(IterSpec::parse(row, 2));
      else if (row[0] == "op") c.ops.push_back(Op::parse(row));
    }
    return c;
  }
};

static bytes own_shortest_separator(const bytes &a, const bytes &limit) {
  // any key k with a <= k < limit; prefer short: first differing byte bumped when possible
  size_t n = std::min(a.size(), limit.size()), i = 0;
  while (i < n && a[i] == limit[i]) i++;
  if (i < n) {
    unsigned char x = (unsigned char)a[i], y = (unsigned char)limit[i];
    if (x + 1 < y) {
      bytes s = a.substr(0, i + 1);
      s[i] = (char)(x + 1);
      return s;
    }
  }
  return a;
}

static ref::EFile build(const Case &c, const KVs &kv) {
  ref::EFile f;
  f.version = c.version;
  f.algo = c.algo;
  f.level = c.level;
  f.zlib_wbits = c.algo == ref::ZLIB ? c.zlib_wbits : 0;
  BStr p;
  p.glen = (uint32_t)c.prefix_len;
  p.gseed = 11;
  f.prefix = p.expand();
  f.index_restart_interval = c.index_restart;
  size_t pos = 0, bi = 0;
  std::vector<std::pair<size_t, size_t>> ranges;
  while (pos < kv.size()) {
    size_t n = bi < c.blocks.size() ? (size_t)c.blocks[bi].n : kv.size() - pos;
    n = std::min(n, kv.size() - pos);
    ranges.push_back({pos, n});
    pos += n;
    bi++;
  }
  for (size_t r = 0; r < ranges.size(); r++) {
    BlockChoice ch = r < c.blocks.size() ? c.blocks[r] : BlockChoice();
    ref::EBlock b;
    uint32_t s = ch.share_seed | 1;
    for (size_t j = 0; j < ranges[r].second; j++) {
      ref::EEntry e;
      e.key = kv[ranges[r].first + j].first;
      e.val = kv[ranges[r].first + j].second;
      if (ch.share_mode == 1) e.share = 0;
      else if (ch.share_mode == 2) {
        s = s * 1664525u + 1013904223u;
        e.share = (int)((s >> 16) % 9);
      }
      b.entries.push_back(e);
      bool restart = j == 0;
      if (ch.restart_mode == 0) restart = true;
      else if (ch.restart_mode == 2) restart = restart || (j % (size_t)ch.restart_k == 0);
      else if (ch.restart_mode == 3) restart = restart || ((ch.restart_bits >> (j % 32)) & 1);
      if (restart) b.restart_at.push_back(j);
    }
    const bytes &last = b.entries.back().key;
    bool has_next = r + 1 < ranges.size();
    bytes next_first = has_next ? kv[ranges[r + 1].first].first : bytes();
    bytes sep = last;
    switch (ch.sep_mode) {
      case 1: sep = last + bytes(2, (char)0xff); break;
      case 2: if (has_next) sep = key_pred(next_first); break;
      case 3: if (has_next) sep = own_shortest_separator(last, next_first); break;
      case 4: sep = last + bytes(1, 'a'); break;
      default: break;
    }
    if (bcmp3(sep, last) < 0 || (has_next && bcmp3(sep, next_first) >= 0)) sep = last;  // stay inside the legal interval
    b.separator = sep;
    f.blocks.push_back(b);
  }
  return f;
}

static bool g_c11_light = false;
static void check_case(const Case &c, Result &r) {
  {
    RefTable m;
    m.e = expand_entries(c.entries);
    ref::EFile ef = build(c, m.e);
    bool ok = true;
    bytes img = ref::encode_file(ef, &ok);
    if (!ok) {
      r.tag("encoder_refused");  // system compressor refused: nothing to check
      return;
    }
    // decoder o encoder = identity (keeps the harness honest)
    ref::DFile df = ref::decode_file(img);
    if (!df.err.empty() || !diff_kvs(df.all(), m.e).empty()) {
      r.failf("HARNESS: independent decoder does not read back the independent encoder's file: %s", df.err.c_str());
      return;
    }
    int fd = fd_from_bytes(img);
    struct mtbl_reader *rd = open_reader_fd(fd, /*verify*/ c.qseed % 2 == 0, false);
    if (!rd) {
      r.failf("mtbl_reader_init_fd rejects a well-formed v%d file (%zu blocks, algorithm %d)", c.version, ef.blocks.size(), c.algo);
      return;
    }
    const struct mtbl_source *src = mtbl_reader_source(rd);
    struct mtbl_iter *it = mtbl_source_iter(src);
    KVs got = it ? drain(it) : KVs();
    if (it) mtbl_iter_destroy(&it);
    std::string d = diff_kvs(got, m.e);
    if (!d.empty()) r.failf("full iteration differs from the encoded entries: %s", d.c_str());
    std::vector<bytes> seps, lasts, firsts;
    for (auto &b : ef.blocks) {
      seps.push_back(b.separator);
      lasts.push_back(b.entries.back().key);
      firsts.push_back(b.entries.front().key);
    }
    QueryStats qst;
    if (!r.fail && g_c11_light) {
      // coverage-guided mode: a lighter query set per execution (stored keys, separators and their neighbours; no range pairs)
      std::set<bytes, BLess> q;
      for (auto &kv : m.e) q.insert(kv.first);
      for (auto &sp : seps) {
        q.insert(sp);
        q.insert(key_pred(sp));
        q.insert(key_succ(sp));
      }
      for (auto &k : q) {
        KVs want = m.get(k), got;
        struct mtbl_iter *gi = mtbl_source_get(src, U(k), k.size());
        if (gi) {
          got = drain(gi);
          mtbl_iter_destroy(&gi);
        }
        if (!diff_kvs(got, want).empty()) {
          r.failf("get(%s): %s", show(k).c_str(), diff_kvs(got, want).c_str());
          break;
        }
        want = m.get_prefix(k);
        got.clear();
        gi = mtbl_source_get_prefix(src, U(k), k.size());
        if (gi) {
          got = drain(gi);
          mtbl_iter_destroy(&gi);
        }
        if (!diff_kvs(got, want).empty()) {
          r.failf("get_prefix(%s): %s", show(k).c_str(), diff_kvs(got, want).c_str());
          break;
        }
        // seek on a fresh iterator, then two nexts
        struct mtbl_iter *si = mtbl_source_iter(src);
        if (si) {
          (void)mtbl_iter_seek(si, U(k), k.size());
          KVs two = drain(si, 2);
          mtbl_iter_destroy(&si);
          size_t pos = m.first_ge(k);
          for (size_t j = 0; j < 2; j++) {
            bool have = pos + j < m.e.size();
            if (have != (j < two.size()) || (have && two[j] != m.e[pos + j])) {
              r.failf("seek(%s) then next #%zu disagrees with the encoded content", show(k).c_str(), j);
              break;
            }
          }
        }
        if (r.fail) break;
      }
    } else if (!r.fail) {
      std::vector<bytes> qs = derived_queries(m, seps, {}, c.qseed);
      std::string e = run_queries(src, m, qs, c.qseed, qst, ValueCmp(), &seps, &lasts, &firsts);
      if (!e.empty()) r.failf("%s", e.c_str());
    }
    HistStats hs;
    if (!r.fail && !c.iters.empty()) {
      std::string e = run_history(src, m, c.iters, c.ops, hs);
      if (!e.empty()) r.failf("%s", e.c_str());
    }
    const struct mtbl_metadata *md = mtbl_reader_metadata(rd);
    if (!r.fail && (int)mtbl_metadata_file_version(md) != c.version - 1) r.failf("mtbl_metadata_file_version = %d for a v%d file", (int)mtbl_metadata_file_version(md), c.version);
    mtbl_reader_destroy(&rd);
    close(fd);
    bool nonmax = false, irregular = false, widesep = false, single = false;
    for (size_t i = 0; i < ef.blocks.size(); i++) {
      BlockChoice ch = i < c.blocks.size() ? c.blocks[i] : BlockChoice();
      if (ch.share_mode) nonmax = true;
      if (ch.restart_mode) irregular = true;
      if (ef.blocks[i].separator != ef.blocks[i].entries.back().key) widesep = true;
      if (ef.blocks[i].entries.size() == 1) single = true;
    }
    r.nontrivial = c.version == 1 || nonmax || irregular || widesep;
    r.tag(c.version == 1 ? "format_v1" : "format_v2");
    if (ef.blocks.size() >= 2) r.tag("multi_block");
    if (ef.zlib_wbits && ef.blocks.size() >= 2) r.tag("zlib_windows_vary_between_blocks");
    if (nonmax) r.tag("non_maximal_sharing");
    if (irregular) r.tag("restarts_not_every_entry");
    if (widesep) r.tag("separator_not_last_key");
    if (single) r.tag("single_entry_block");
    for (auto &b : df.data)
      if (b.stored_len >= 65536) r.tag("stored_block_ge64KiB");
    if (c.prefix_len) r.tag("foreign_prefix");
    r.tag("algo_" + std::to_string(c.algo));
    r.counters["queries_in_index_gap"] = qst.gap_queries;
  }
}



// libFuzzer input -> case.  Layout: [b0: version bit0, algo bits1-3, prefix bit4][b1: index restart interval 1..8]
// then records of 4+ bytes: [flags][keep][suffix_len(0..3)][val_len] + suffix bytes.  Keys are made strictly increasing by
// construction: keep a prefix of the previous key, bump the byte after it (or extend), append the suffix.
static Case decode_fuzz11(const uint8_t *d, size_t n) {
  Case c;
  if (n < 2) return c;
  c.version = (d[0] & 1) ? 1 : 2;
  c.algo = ((d[0] >> 1) & 7) % 6;
  c.prefix_len = (d[0] & 16) ? 13 : 0;
  c.level = 1;
  c.index_restart = 1 + d[1] % 8;
  c.qseed = 1 + d[1];
  bytes prev;
  bool have = false;
  BlockChoice cur;
  cur.n = 0;
  size_t p = 2;
  while (p + 4 <= n && c.entries.size() < 300) {
    uint8_t flags = d[p], keep = d[p + 1], sl = d[p + 2] % 4, vl = d[p + 3];
    p += 4;
    bytes k;
    if (!have) k = bytes();
    else {
      size_t kp = prev.empty() ? 0 : keep % (prev.size() + 1);
      k = prev.substr(0, kp);
      if (kp < prev.size() && (unsigned char)prev[kp] != 0xff) k.push_back((char)((unsigned char)prev[kp] + 1 + (flags >> 6)  > 0xff ? 0xff : (unsigned char)prev[kp] + 1 + (flags >> 6)));
      else {
        k = prev;
        k.push_back((char)(flags >> 6));
      }
    }
    for (uint8_t i = 0; i < sl && p < n; i++) k.push_back((char)d[p++]);
    if (have && bcmp3(k, prev) <= 0) {
      k = prev;
      k.push_back('\0');
    }
    if (!have && (flags & 32)) k.push_back('a');
    SEntry e;
    e.k = BStr::of(k);
    e.v.glen = (flags & 16) ? (uint32_t)vl * 8 : vl;
    e.v.gkind = 2;
    e.v.gseed = vl;
    c.entries.push_back(e);
    prev = k;
    have = true;
    cur.n++;
    if (flags & 1) {  // close the block here with the choices in this record
      cur.restart_mode = (flags >> 1) & 3;
      cur.restart_k = 1 + keep % 5;
      cur.restart_bits = (uint32_t)keep * 0x01010101u ^ vl;
      cur.share_mode = (flags >> 3) % 3;
      cur.share_seed = vl;
      cur.sep_mode = keep % 5;
      c.blocks.push_back(cur);
      cur = BlockChoice();
      cur.n = 0;
    }
  }
  if (cur.n > 0) {
    cur.restart_mode = 2;
    cur.restart_k = 3;
    c.blocks.push_back(cur);
  }
  return c;
}
