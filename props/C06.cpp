// C06 — sorter output is the sorted, merged input regardless of chunking
#define VF_MAIN
#include "mergecommon.h"
#include "../harness/shims/shims.h"
#include <dirent.h>
using namespace vf;

struct Case {
  std::vector<bytes> keys;  // adds in call order; value of add #i is token(0, i)
  long long max_memory = 1;
  int pool = -1;
  int consumer = 0;  // 0 mtbl_sorter_iter, 1 mtbl_sorter_write
  int merge = 1;     // 1 concat; 0 none (only generated when all keys are distinct)
  int vmode = 0;     // 0: values are unique 4-byte tokens, concatenating merge function; 1: variable-length values (0..40 bytes) and the
                     // modular-sum merge function, whose result is usually SHORTER than its operands
  bool valid() const {
    if (keys.size() > 4000 || max_memory < 1 || pool > 16 || pool < -1 || consumer < 0 || consumer > 1) return false;
    if (merge == 0) {
      std::set<bytes, BLess> s(keys.begin(), keys.end());
      if (s.size() != keys.size()) return false;  // duplicates without a merge function violate the API's precondition
    }
    return true;
  }
  std::string ser() const {
    Out o;
    o << "property C06\n";
    o << "opts max_memory=" << max_memory << " pool=" << pool << " consumer=" << consumer << " merge=" << merge << " vmode=" << vmode << "\n";
    for (auto &k : keys) o << "add " << (k.empty() ? "-" : hex(k)) << "\n";
    return o.str();
  }
  static Case parse(const std::string &t) {
    Case c;
    for (auto &row : Lines::parse(t).rows) {
      if (row[0] == "opts") {
        for (size_t i = 1; i < row.size(); i++) {
          size_t e = row[i].find('=');
          if (e == std::string::npos) continue;
          std::string k = row[i].substr(0, e);
          long long v = atoll(row[i].c_str() + e + 1);
          if (k == "max_memory") c.max_memory = v;
          else if (k == "pool") c.pool = (int)v;
          else if (k == "consumer") c.consumer = (int)v;
          else if (k == "merge") c.merge = (int)v;
          else if (k == "vmode") c.vmode = v ? 1 : 0;
        }
      } else if (row[0] == "add") c.keys.push_back(row.size() > 1 && row[1] != "-" ? unhex(row[1]) : bytes());
    }
    return c;
  }
};

static Case gen_case() {
  Case c;
  int size = current_size();
  static const unsigned char al[] = {0x00, 'a', 'b', 0xff, 0x80};
  int universe = weighted({35, 45, 20});  // 0: tiny (many duplicates), 1: medium, 2: mostly distinct
  int n = weighted({4, 96}) == 0 ? 0 : pick(1, 6 + size);
  int pattern = weighted({50, 12, 12, 10, 16});  // random, sorted, reverse, all-equal, random+empty key
  std::vector<bytes> ks;
  for (int i = 0; i < n; i++) {
    bytes k;
    int len = universe == 0 ? pick(0, 2) : universe == 1 ? pick(0, 3) : pick(2, 6);
    int nsym = universe == 0 ? 2 : universe == 1 ? 3 : 5;
    for (int j = 0; j < len; j++) k.push_back((char)al[pick(0, nsym - 1)]);
    if (pattern == 3) k = bytes("same");
    if (pattern == 4 && chance(15)) k.clear();
    ks.push_back(k);
  }
  if (pattern == 1) std::sort(ks.begin(), ks.end(), BLess());
  if (pattern == 2) {
    std::sort(ks.begin(), ks.end(), BLess());
    std::reverse(ks.begin(), ks.end());
  }
  c.keys = ks;
  switch (weighted({18, 52, 18, 12})) {
    case 0: c.max_memory = 1; break;                     // one entry per chunk
    case 1: c.max_memory = pick(20, 40) * pick(1, 12); break;  // a few entries per chunk
    case 2: c.max_memory = pick(300, 3000); break;
    default: c.max_memory = 1 << 30; break;              // everything in memory
  }
  c.pool = chance(35) ? one_of<int>({0, 1, 2, 3, 8}) : -1;
  c.consumer = chance(30);
  std::set<bytes, BLess> s(ks.begin(), ks.end());
  c.merge = (s.size() == ks.size() && chance(30)) ? 0 : 1;
  c.vmode = chance(35);
  return c;
}

static int count_dir(const std::string &d) {
  int n = 0;
  DIR *dp = opendir(d.c_str());
  if (!dp) return -1;
  while (struct dirent *e = readdir(dp))
    if (strcmp(e->d_name, ".") && strcmp(e->d_name, "..")) n++;
  closedir(dp);
  return n;
}

static void body(const Case &c, Result &r) {
  ensure_tmpdir();
  static int run_no = 0;  // a second run in the same process (history mode 2) gets a directory of its own
  std::string tdir = g_tmpdir + "/sort-" + std::to_string(getpid()) + "-" + std::to_string(run_no++);
  mkdir(tdir.c_str(), 0700);
  // model
  std::map<bytes, std::vector<bytes>, BLess> mm;
  for (size_t i = 0; i < c.keys.size(); i++) mm[c.keys[i]].push_back(family_value(c.vmode, 0, (int)i));
  RefTable model;
  for (auto &kv : mm) model.e.emplace_back(kv.first, fold_expected(c.vmode, kv.second));

  PoolHolder ph(c.pool);
  MergeClos mc;
  mc.keep_log = false;
  struct mtbl_sorter_options *so = mtbl_sorter_options_init();
  mtbl_sorter_options_set_temp_dir(so, tdir.c_str());
  mtbl_sorter_options_set_max_memory(so, (size_t)c.max_memory);
  if (c.merge) mtbl_sorter_options_set_merge_func(so, family_merge_func(c.vmode), &mc);
  if (ph.p) mtbl_sorter_options_set_threadpool(so, ph.p);
  struct mtbl_sorter *s = mtbl_sorter_init(so);
  mtbl_sorter_options_destroy(&so);

  vs_mkstemp_calls = 0;
  bool unpooled = c.pool <= 0;  // mtbl_threadpool_init(0) has no pool: spills happen synchronously
  long long buffered = 0;
  int last_calls = 0;
  for (size_t i = 0; i < c.keys.size() && !r.fail; i++) {
    bytes v = family_value(c.vmode, 0, (int)i);
    mtbl_res ar = mtbl_sorter_add(s, U(c.keys[i]), c.keys[i].size(), U(v), v.size());
    if (ar != mtbl_res_success) r.failf("mtbl_sorter_add #%zu reported failure", i);
    buffered += (long long)(c.keys[i].size() + v.size());
    if (unpooled) {
      int now = vs_mkstemp_calls;
      if (now != last_calls) {
        buffered = 0;
        last_calls = now;
      } else if (buffered >= c.max_memory) {
        r.failf("after add #%zu the entries buffered since the last spill total %lld key+value bytes >= max_memory %lld, but no spill file was created", i, buffered, c.max_memory);
      }
    }
  }
  KVs got;
  if (!r.fail) {
    if (c.consumer == 0) {
      struct mtbl_iter *it = mtbl_sorter_iter(s);
      if (!it) r.failf("mtbl_sorter_iter returned NULL");
      else {
        // refused once iteration has begun
        bytes k("zz"), v("vvvv");
        if (mtbl_sorter_add(s, U(k), k.size(), U(v), v.size()) == mtbl_res_success) r.failf("mtbl_sorter_add succeeded after iteration had begun");
        int wfd = new_memfd("vf-refused");
        struct mtbl_writer *w2 = mtbl_writer_init_fd(wfd, nullptr);
        if (mtbl_sorter_write(s, w2) == mtbl_res_success) r.failf("mtbl_sorter_write succeeded after iteration had begun");
        mtbl_writer_destroy(&w2);
        close(wfd);
        got = drain(it);
        mtbl_iter_destroy(&it);
      }
    } else {
      int fd = new_memfd("vf-sorted");
      struct mtbl_writer_options *wo = mtbl_writer_options_init();
      mtbl_writer_options_set_compression(wo, MTBL_COMPRESSION_NONE);
      struct mtbl_writer *w = mtbl_writer_init_fd(fd, wo);
      mtbl_writer_options_destroy(&wo);
      mtbl_res wr = mtbl_sorter_write(s, w);
      if (wr != mtbl_res_success) r.failf("mtbl_sorter_write reported failure");
      bytes k("zz"), v("vvvv");
      if (mtbl_sorter_add(s, U(k), k.size(), U(v), v.size()) == mtbl_res_success) r.failf("mtbl_sorter_add succeeded after mtbl_sorter_write");
      if (mtbl_sorter_write(s, w) == mtbl_res_success) r.failf("a second mtbl_sorter_write succeeded");
      mtbl_writer_destroy(&w);
      struct mtbl_reader *rd = open_reader_fd(fd);
      if (!rd) r.failf("file produced by mtbl_sorter_write does not open");
      else {
        struct mtbl_iter *it = mtbl_source_iter(mtbl_reader_source(rd));
        if (it) {
          got = drain(it);
          mtbl_iter_destroy(&it);
        }
        mtbl_reader_destroy(&rd);
      }
      close(fd);
    }
  }
  int chunks = vs_mkstemp_calls;
  mtbl_sorter_destroy(&s);
  if (!r.fail) {
    if (got.size() != model.e.size()) r.failf("sorter produced %zu entries, expected %zu distinct keys", got.size(), model.e.size());
    for (size_t i = 0; i < std::min(got.size(), model.e.size()) && !r.fail; i++) {
      if (got[i].first != model.e[i].first) r.failf("output %zu has key %s, expected %s", i, show(got[i].first).c_str(), show(model.e[i].first).c_str());
      else if (!family_value_eq(c.vmode, got[i].second, model.e[i].second))
        r.failf("key %s: value %s does not fold exactly the values added for it (expected %s, up to token order)", show(got[i].first).c_str(), show(got[i].second).c_str(),
                show(model.e[i].second).c_str());
    }
    if (!r.fail && c.merge) {
      long long want_calls = (long long)c.keys.size() - (long long)model.e.size();
      if (mc.calls != want_calls) r.failf("merge function called %lld times for %zu adds of %zu distinct keys (expected %lld)", mc.calls, c.keys.size(), model.e.size(), want_calls);
    }
  }
  // spill files only inside the configured directory, and none left behind
  std::string want_prefix = tdir + "/";
  for (int i = 0; i < chunks && i < VS_MAX_TEMPLATES && !r.fail; i++)
    if (strncmp(vs_mkstemp_templates[i], want_prefix.c_str(), want_prefix.size()) != 0)
      r.failf("spill file template '%s' is outside the configured temporary directory %s", vs_mkstemp_templates[i], tdir.c_str());
  int left = count_dir(tdir);
  if (left != 0 && !r.fail) r.failf("%d file(s) left in the sorter's temporary directory", left);
  rm_rf(tdir);

  // which keys sit in >= 2 chunks cannot be observed directly; approximate by chunk count and duplicates
  bool dup = model.e.size() < c.keys.size();
  r.nontrivial = chunks >= 2 && dup;
  if (chunks >= 2) r.tag("multi_chunk");
  if (chunks >= 8) r.tag("chunks_ge8");
  if (dup) r.tag("duplicate_keys");
  if (c.pool > 0) r.tag("pooled");
  if (c.consumer) r.tag("sorter_write");
  if (c.keys.empty()) r.tag("empty_input");
  if (mm.count(bytes())) r.tag("empty_key");
  if (!c.merge) r.tag("no_merge_function");
  if (c.vmode && c.merge && dup) r.tag("shrinking_merge_function");
  if (c.max_memory == 1) r.tag("one_entry_per_chunk");
  r.counters["chunks"] = chunks;
}
static Result run_case(const Case &c) {
  return run_isolated([&](Result &r) { body(c, r); });
}
int main(int argc, char **argv) {
  g_history_enabled = true;  // process-history mode 2 (harness/vf.h): a shadow of the case runs first in the same process
  return vf_main<Case>(argc, argv, "C06", gen_case, run_case);
}
