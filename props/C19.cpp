// C19 — opening arbitrary bytes as a table never reads outside the file
// reader.c is compiled with mmap/munmap renamed: the "mapping" is an exact-size ASan heap block.
#define VF_MAIN
#include "c19_common.h"

static Result run_case(const Case &c) {
  return run_isolated([&](Result &r) {
    bytes img = materialise(c);
    Case eff = c.fuzz.empty() ? c : decode_fuzz((const uint8_t *)c.fuzz.data(), c.fuzz.size());
    int oc = try_open(img, eff.verify, eff.by_path);
    if (!c.fuzz.empty()) r.tag("from_fuzzer_artifact");
    r.nontrivial = gate_passed(img);
    r.tag(oc == 0 ? "returned_NULL" : oc == 1 ? "returned_reader" : "assertion_stop");
    if (r.nontrivial) r.tag("passes_size_and_magic_gate");
    if (c.verify) r.tag("verify_checksums");
    for (auto &m : c.muts) r.tag("mut_" + std::to_string(m.kind));
  });
}

static uint64_t gen_field_value(uint64_t size) {
  switch (weighted({35, 15, 25, 25})) {
    case 0: return (uint64_t)pick(0, (int)std::min<uint64_t>(size + 600, 1u << 30));
    case 1: return size - (uint64_t)pick(0, 600);
    case 2: return one_of<uint64_t>({0ull, 1ull, 511ull, 512ull, 513ull, 0x7fffffffull, 0x80000000ull, 0xffffffffull, 0x100000000ull, 0x100000001ull,
                                     1ull << 63, ~0ull, ~0ull - 511, ~0ull - 512, ~0ull - 525, ~0ull - 600, (1ull << 32) - 13, (1ull << 32) + 13});
    default: return ((uint64_t)pick_u32() << 32) | pick_u32();
  }
}
static Case gen_case() {
  Case c;
  c.verify = chance(50);
  c.by_path = chance(15);
  if (chance(12)) {
    c.base = -1;
    int n = weighted({20, 40, 40}) == 0 ? pick(0, 511) : pick(512, 1500);
    for (int i = 0; i < n; i++) c.raw.push_back((char)(chance(70) ? 0 : pick(0, 255)));
    if (n >= 512 && chance(80)) {
      uint32_t mg = chance(50) ? ref::MAGIC_V1 : ref::MAGIC_V2;
      put_le(c.raw, c.raw.size() - 4, mg, 4);
      put_le(c.raw, c.raw.size() - 512, (uint64_t)pick(0, n), 8);
    }
    return c;
  }
  c.base = pick(0, NBASE - 1);
  int nm = weighted({70, 22, 8}) + 1;
  for (int i = 0; i < nm; i++) {
    Mut m;
    m.kind = weighted({14, 22, 8, 22, 14, 10, 6, 4, 12});
    uint64_t approx = 6000;
    m.v = gen_field_value(approx);
    if (m.kind == 2) m.v = one_of<uint64_t>({ref::MAGIC_V1, ref::MAGIC_V2, ref::MAGIC_V2 + 1, ref::MAGIC_V1 - 1, 0});
    if (m.kind == 5) {
      m.v = (uint64_t)pick(0, 7000);
      m.b = pick(0, 255);
    }
    if (m.kind == 6) m.b = pick(0, 8);
    if (m.kind == 8) {
      int a = chance(60) ? 0 : pick(0, 8), g = chance(50) ? one_of<int>({5, 6}) : pick(0, 8);
      if (g == a) g = (a + 6) % 9;
      m.b = a + 9 * g + 81 * (int)chance(30);
    }
    c.muts.push_back(m);
  }
  return c;
}

// ---------------------------------------------------------------- enumerator: all single-field mutations of each base file
static std::vector<uint64_t> boundary_values(uint64_t size) {
  std::vector<uint64_t> v;
  for (uint64_t x = 0; x <= size + 600; x++) v.push_back(x);
  for (uint64_t b : {0x7fffffffull, 0x80000000ull, 0xffffffffull, 0x100000000ull, 1ull << 62, 1ull << 63})
    for (int d = -2; d <= 2; d++) v.push_back(b + (uint64_t)d);
  for (uint64_t d = 0; d <= 640; d++) v.push_back(~0ull - d);
  return v;
}
static int extra_modes(const WorkerOpts &o, Stats &stats) {
  if (o.mode != "enum") return 2;
  // work items: (base, field kind, verify); each item is one child looping over all values of the field
  struct Item { int base, kind, verify, b; };
  std::vector<Item> items;
  for (int b = 0; b < NBASE; b++)
    for (int k : {0, 1, 2, 3, 4})
      for (int vf = 0; vf < 2; vf++) items.push_back({b, k, vf, 0});
  // coupled pairs: index_block_offset (field 0) against bytes_data_blocks (5) and bytes_index_block (6), sum- and difference-preserving
  for (int b = 0; b < NBASE; b++)
    for (int g : {5, 6})
      for (int mode = 0; mode < 2; mode++) items.push_back({b, 8, (b + g + mode) % 2, 0 + 9 * g + 81 * mode});
  int full = (int)o.geti("full", 0);
  for (size_t ii = (size_t)o.worker; ii < items.size(); ii += (size_t)o.nworkers) {
    Item it = items[ii];
    if (!full && (it.base % 3) != (int)(o.seed % 3) && it.base > 1) continue;  // quick tier: a third of the base files per run (+ bases 0,1 always)
    std::string last_idx;
    ChildRun cr = run_child([&](int fd) {
      bytes base = make_base(it.base);
      std::vector<uint64_t> vals;
      if (it.kind == 0) for (uint64_t x = 0; x < base.size(); x++) vals.push_back(x);
      else if (it.kind == 2) vals = {ref::MAGIC_V1, ref::MAGIC_V2, ref::MAGIC_V2 + 1, ref::MAGIC_V2 - 1, ref::MAGIC_V1 + 1, ref::MAGIC_V1 - 1, 0, 0xffffffffu};
      else vals = boundary_values(base.size());
      long long gate = 0;
      for (size_t i = 0; i < vals.size(); i++) {
        char line[64];
        int n = snprintf(line, sizeof line, "%llu\n", (unsigned long long)vals[i]);
        if (write(fd, line, (size_t)n) < 0) {}
        bytes img = base;
        Mut m;
        m.kind = it.kind;
        m.v = vals[i];
        m.b = it.b;
        apply_mut(img, m);
        if (gate_passed(img)) gate++;
        try_open(img, it.verify, 0);
      }
      char line[64];
      int n = snprintf(line, sizeof line, "done %zu %lld\n", vals.size(), gate);
      if (write(fd, line, (size_t)n) < 0) {}
    }, 600);
    // parse progress
    std::istringstream in(cr.payload);
    std::string l, prev;
    long long n_done = -1, gate = 0;
    while (std::getline(in, l)) {
      if (l.rfind("done ", 0) == 0) sscanf(l.c_str(), "done %lld %lld", &n_done, &gate);
      else prev = l;
    }
    Case rep;
    rep.base = it.base;
    rep.verify = it.verify;
    Mut m;
    m.kind = it.kind;
    m.v = prev.empty() ? 0 : toull(prev);
    m.b = it.b;
    rep.muts.push_back(m);
    if (!cr.clean() || n_done < 0) {
      Result r1 = run_case(rep);
      std::string msg = r1.fail ? r1.msg : ("batch child died (" + cr.describe() + ") but the single value does not reproduce it");
      stats.add(rep.ser(), r1);
      write_file(o.outdir + "/fail.case", rep.ser());
      write_file(o.outdir + "/fail.msg", msg);
      return 1;
    }
    Result r;
    r.nontrivial = true;
    r.tag("enum_base_" + std::to_string(it.base));
    r.tag("enum_field_" + std::to_string(it.kind) + (it.kind == 8 ? "_pair" + std::to_string(it.b) : std::string()));
    stats.add(rep.ser() + "# enumerated: every value of this field (" + std::to_string(n_done) + " values)\n", r);
    stats.evaluations += n_done - 1;
    stats.counters["bulk_distinct_nontrivial"] += gate > 0 ? gate - 1 : 0;
    stats.counters["enumerated_opens"] += n_done;
  }
  return 0;
}

int main(int argc, char **argv) {
  g_history_enabled = true;  // process-history modes (harness/vf.h): prelude first / the case body twice in one process
  g_prelude_fn = table_prelude;
  return vf_main<Case>(argc, argv, "C19", gen_case, run_case, extra_modes);
}
