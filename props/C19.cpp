// C19 — opening arbitrary bytes as a table never reads outside the file
// reader.c is compiled with mmap/munmap renamed: the "mapping" is an exact-size ASan heap block.
#define VF_MAIN
#include "../harness/refcodec.h"
using namespace vf;

struct Mut {
  int kind = 0;  // 0 truncate to v; 1 index_block_offset=v; 2 magic=v; 3 index length prefix=v; 4 index num_restarts=v;
                 // 5 patch byte at offset v to value b; 6 trailer field #b = v; 7 append v zero bytes before the trailer (shifts nothing, grows file)
  uint64_t v = 0;
  int b = 0;
};
struct Case {
  int base = 0;
  std::vector<Mut> muts;
  int verify = 0;
  int by_path = 0;
  bytes raw;  // when base == -1: the whole file content literally
  bool valid() const { return base >= -1 && base < 12 && muts.size() <= 8 && raw.size() <= (1u << 20); }
  std::string ser() const {
    Out o;
    o << "property C19\nfile base=" << base << " verify=" << verify << " by_path=" << by_path << "\n";
    if (base == -1) o << "raw " << (raw.empty() ? "-" : hex(raw)) << "\n";
    for (auto &m : muts) o << "mut " << m.kind << " " << m.v << " " << m.b << "\n";
    return o.str();
  }
  static Case parse(const std::string &t) {
    Case c;
    for (auto &row : Lines::parse(t).rows) {
      if (row[0] == "file") {
        for (size_t i = 1; i < row.size(); i++) {
          size_t e = row[i].find('=');
          if (e == std::string::npos) continue;
          std::string k = row[i].substr(0, e);
          int v = atoi(row[i].c_str() + e + 1);
          if (k == "base") c.base = v;
          else if (k == "verify") c.verify = v;
          else if (k == "by_path") c.by_path = v;
        }
      } else if (row[0] == "raw" && row.size() > 1) c.raw = row[1] == "-" ? bytes() : unhex(row[1]);
      else if (row[0] == "mut" && row.size() >= 3) {
        Mut m;
        m.kind = atoi(row[1].c_str());
        m.v = toull(row[2]);
        m.b = row.size() > 3 ? atoi(row[3].c_str()) : 0;
        c.muts.push_back(m);
      }
    }
    return c;
  }
};

// ---------------------------------------------------------------- base files (deterministic)
static KVs base_entries(int n, int vlen, const char *pfx) {
  KVs kv;
  for (int i = 0; i < n; i++) {
    char k[64];
    snprintf(k, sizeof k, "%s%04d", pfx, i * 7);
    BStr v;
    v.glen = (uint32_t)vlen;
    v.gseed = (uint32_t)i;
    kv.emplace_back(bytes(k), v.expand());
  }
  return kv;
}
static bytes ref_file(int version, int algo, const KVs &kv, size_t per_block, const bytes &prefix) {
  ref::EFile f;
  f.version = version;
  f.algo = algo;
  f.prefix = prefix;
  for (size_t i = 0; i < kv.size(); i += per_block) {
    ref::EBlock b;
    for (size_t j = i; j < std::min(kv.size(), i + per_block); j++) {
      ref::EEntry e;
      e.key = kv[j].first;
      e.val = kv[j].second;
      b.entries.push_back(e);
    }
    for (size_t j = 0; j < b.entries.size(); j += 3) b.restart_at.push_back(j);
    b.separator = b.entries.back().key;
    f.blocks.push_back(b);
  }
  return ref::encode_file(f);
}
static const int NBASE = 12;
static bytes make_base(int id) {
  WConfig c;
  c.block_size = 1024;
  switch (id) {
    case 0: c.comp = 0; return fd_contents(write_table(c, base_entries(3, 5, "k")));
    case 1: c.comp = 2; return fd_contents(write_table(c, base_entries(40, 150, "key")));
    case 2: c.comp = 0; return fd_contents(write_table(c, KVs()));
    case 3: c.comp = 0; c.prefix_len = 13; c.prefix_seed = 3; return fd_contents(write_table(c, base_entries(10, 30, "p")));
    case 4: return ref_file(1, ref::NONE, base_entries(9, 20, "v1"), 5, bytes());
    case 5: return ref_file(1, ref::ZLIB, base_entries(12, 90, "z"), 4, bytes("FOREIGN-PREFIX-BYTES"));
    case 6: c.comp = 3; return fd_contents(write_table(c, base_entries(30, 200, "lz")));
    case 7: return ref_file(2, ref::NONE, base_entries(60, 10, "m"), 3, bytes());
    case 8: c.comp = 1; c.restart = 1; return fd_contents(write_table(c, base_entries(25, 100, "s")));
    case 9: return ref_file(1, ref::NONE, KVs(), 1, bytes());
    case 10: c.comp = 5; c.prefix_len = 512; return fd_contents(write_table(c, base_entries(8, 400, "zs")));
    default: c.comp = 0; c.restart = 2; return fd_contents(write_table(c, base_entries(200, 3, "")));
  }
}
static void put_le(bytes &img, size_t off, uint64_t v, int n) {
  for (int i = 0; i < n && off + (size_t)i < img.size(); i++) img[off + (size_t)i] = (char)((v >> (8 * i)) & 0xff);
}
static void apply_mut(bytes &img, const Mut &m) {
  if (img.size() < 512 && m.kind != 0 && m.kind != 5) return;
  size_t t = img.size() >= 512 ? img.size() - 512 : 0;
  switch (m.kind) {
    case 0:
      if (m.v < img.size()) img.resize((size_t)m.v);
      break;
    case 1: put_le(img, t, m.v, 8); break;
    case 2: put_le(img, t + 508, m.v, 4); break;
    case 3: {  // index length prefix (varint for v2, fixed32 for v1)
      uint64_t ioff = ref::get_le64((const uint8_t *)img.data() + t);
      uint32_t magic = ref::get_le32((const uint8_t *)img.data() + t + 508);
      if (ioff >= img.size()) break;
      if (magic == ref::MAGIC_V1) put_le(img, (size_t)ioff, m.v, 4);
      else {
        bytes vb = ref::varint_bytes(m.v);
        for (size_t i = 0; i < vb.size() && ioff + i < img.size(); i++) img[(size_t)ioff + i] = vb[i];
      }
      break;
    }
    case 4: {  // num_restarts word of the index block = last 4 bytes before the trailer
      if (t >= 4) put_le(img, t - 4, m.v, 4);
      break;
    }
    case 5:
      if (m.v < img.size()) img[(size_t)m.v] = (char)m.b;
      break;
    case 6:
      if (m.b >= 0 && m.b < 9) put_le(img, t + 8 * (size_t)m.b, m.v, 8);
      break;
    case 7: {
      size_t n = (size_t)std::min<uint64_t>(m.v, 4096);
      img.insert(t, bytes(n, '\0'));
      break;
    }
  }
}

// opens the image; returns 0 NULL, 1 reader, 2 assertion stop (recovered)
static int try_open(const bytes &img, int verify, int by_path) {
  int fd = fd_from_bytes(img);
  struct mtbl_reader_options *ro = mtbl_reader_options_init();
  mtbl_reader_options_set_verify_checksums(ro, verify != 0);
  struct mtbl_reader *rd = nullptr;
  int outcome;
  vf_assert_armed = 1;
  if (sigsetjmp(vf_assert_jmp, 1) == 0) {
    if (by_path) {
      std::string p = "/proc/self/fd/" + std::to_string(fd);
      rd = mtbl_reader_init(p.c_str(), ro);
    } else rd = mtbl_reader_init_fd(fd, ro);
    vf_assert_armed = 0;
    outcome = rd ? 1 : 0;
    if (rd) mtbl_reader_destroy(&rd);
  } else {
    outcome = 2;  // stopped on a checksum/consistency assertion: allowed
  }
  mtbl_reader_options_destroy(&ro);
  close(fd);
  return outcome;
}

static bool gate_passed(const bytes &img) {
  if (img.size() < 512) return false;
  uint32_t magic = ref::get_le32((const uint8_t *)img.data() + img.size() - 4);
  return magic == ref::MAGIC_V1 || magic == ref::MAGIC_V2;
}

static Result run_case(const Case &c) {
  return run_isolated([&](Result &r) {
    bytes img = c.base == -1 ? c.raw : make_base(c.base);
    for (auto &m : c.muts) apply_mut(img, m);
    int oc = try_open(img, c.verify, c.by_path);
    r.nontrivial = gate_passed(img);
    r.tag(oc == 0 ? "returned_NULL" : oc == 1 ? "returned_reader" : "assertion_stop");
    if (r.nontrivial) r.tag("passes_size_and_magic_gate");
    if (c.verify) r.tag("verify_checksums");
    for (auto &m : c.muts) r.tag("mut_" + std::to_string(m.kind));
  });
}

static uint64_t gen_field_value(uint64_t size) {
  switch (weighted({35, 15, 25, 25})) {
    case 0: return (uint64_t)pick(0, (int)std::min<uint64_t>(size + 600, 1u << 30));
    case 1: return size - (uint64_t)pick(0, 600);
    case 2: return one_of<uint64_t>({0ull, 1ull, 511ull, 512ull, 513ull, 0x7fffffffull, 0x80000000ull, 0xffffffffull, 0x100000000ull, 0x100000001ull,
                                     1ull << 63, ~0ull, ~0ull - 511, ~0ull - 512, ~0ull - 525, ~0ull - 600, (1ull << 32) - 13, (1ull << 32) + 13});
    default: return ((uint64_t)pick_u32() << 32) | pick_u32();
  }
}
static Case gen_case() {
  Case c;
  c.verify = chance(50);
  c.by_path = chance(15);
  if (chance(12)) {
    c.base = -1;
    int n = weighted({20, 40, 40}) == 0 ? pick(0, 511) : pick(512, 1500);
    for (int i = 0; i < n; i++) c.raw.push_back((char)(chance(70) ? 0 : pick(0, 255)));
    if (n >= 512 && chance(80)) {
      uint32_t mg = chance(50) ? ref::MAGIC_V1 : ref::MAGIC_V2;
      put_le(c.raw, c.raw.size() - 4, mg, 4);
      put_le(c.raw, c.raw.size() - 512, (uint64_t)pick(0, n), 8);
    }
    return c;
  }
  c.base = pick(0, NBASE - 1);
  int nm = weighted({70, 22, 8}) + 1;
  for (int i = 0; i < nm; i++) {
    Mut m;
    m.kind = weighted({14, 22, 8, 22, 14, 10, 6, 4});
    uint64_t approx = 6000;
    m.v = gen_field_value(approx);
    if (m.kind == 2) m.v = one_of<uint64_t>({ref::MAGIC_V1, ref::MAGIC_V2, ref::MAGIC_V2 + 1, ref::MAGIC_V1 - 1, 0});
    if (m.kind == 5) {
      m.v = (uint64_t)pick(0, 7000);
      m.b = pick(0, 255);
    }
    if (m.kind == 6) m.b = pick(0, 8);
    c.muts.push_back(m);
  }
  return c;
}

// ---------------------------------------------------------------- enumerator: all single-field mutations of each base file
static std::vector<uint64_t> boundary_values(uint64_t size) {
  std::vector<uint64_t> v;
  for (uint64_t x = 0; x <= size + 600; x++) v.push_back(x);
  for (uint64_t b : {0x7fffffffull, 0x80000000ull, 0xffffffffull, 0x100000000ull, 1ull << 62, 1ull << 63})
    for (int d = -2; d <= 2; d++) v.push_back(b + (uint64_t)d);
  for (uint64_t d = 0; d <= 640; d++) v.push_back(~0ull - d);
  return v;
}
static int extra_modes(const WorkerOpts &o, Stats &stats) {
  if (o.mode != "enum") return 2;
  // work items: (base, field kind, verify); each item is one child looping over all values of the field
  struct Item { int base, kind, verify; };
  std::vector<Item> items;
  for (int b = 0; b < NBASE; b++)
    for (int k : {0, 1, 2, 3, 4})
      for (int vf = 0; vf < 2; vf++) items.push_back({b, k, vf});
  int full = (int)o.geti("full", 0);
  for (size_t ii = (size_t)o.worker; ii < items.size(); ii += (size_t)o.nworkers) {
    Item it = items[ii];
    if (!full && (it.base % 3) != (int)(o.seed % 3) && it.base > 1) continue;  // quick tier: a third of the base files per run (+ bases 0,1 always)
    std::string last_idx;
    ChildRun cr = run_child([&](int fd) {
      bytes base = make_base(it.base);
      std::vector<uint64_t> vals;
      if (it.kind == 0) for (uint64_t x = 0; x < base.size(); x++) vals.push_back(x);
      else if (it.kind == 2) vals = {ref::MAGIC_V1, ref::MAGIC_V2, ref::MAGIC_V2 + 1, ref::MAGIC_V2 - 1, ref::MAGIC_V1 + 1, ref::MAGIC_V1 - 1, 0, 0xffffffffu};
      else vals = boundary_values(base.size());
      long long gate = 0;
      for (size_t i = 0; i < vals.size(); i++) {
        char line[64];
        int n = snprintf(line, sizeof line, "%llu\n", (unsigned long long)vals[i]);
        if (write(fd, line, (size_t)n) < 0) {}
        bytes img = base;
        Mut m;
        m.kind = it.kind;
        m.v = vals[i];
        apply_mut(img, m);
        if (gate_passed(img)) gate++;
        try_open(img, it.verify, 0);
      }
      char line[64];
      int n = snprintf(line, sizeof line, "done %zu %lld\n", vals.size(), gate);
      if (write(fd, line, (size_t)n) < 0) {}
    }, 600);
    // parse progress
    std::istringstream in(cr.payload);
    std::string l, prev;
    long long n_done = -1, gate = 0;
    while (std::getline(in, l)) {
      if (l.rfind("done ", 0) == 0) sscanf(l.c_str(), "done %lld %lld", &n_done, &gate);
      else prev = l;
    }
    Case rep;
    rep.base = it.base;
    rep.verify = it.verify;
    Mut m;
    m.kind = it.kind;
    m.v = prev.empty() ? 0 : toull(prev);
    rep.muts.push_back(m);
    if (!cr.clean() || n_done < 0) {
      Result r1 = run_case(rep);
      std::string msg = r1.fail ? r1.msg : ("batch child died (" + cr.describe() + ") but the single value does not reproduce it");
      stats.add(rep.ser(), r1);
      write_file(o.outdir + "/fail.case", rep.ser());
      write_file(o.outdir + "/fail.msg", msg);
      return 1;
    }
    Result r;
    r.nontrivial = true;
    r.tag("enum_base_" + std::to_string(it.base));
    r.tag("enum_field_" + std::to_string(it.kind));
    stats.add(rep.ser() + "# enumerated: every value of this field (" + std::to_string(n_done) + " values)\n", r);
    stats.evaluations += n_done - 1;
    stats.counters["bulk_distinct_nontrivial"] += gate > 0 ? gate - 1 : 0;
    stats.counters["enumerated_opens"] += n_done;
  }
  return 0;
}

int main(int argc, char **argv) { return vf_main<Case>(argc, argv, "C19", gen_case, run_case, extra_modes); }
