// C04 — merger output is the sorted union of its sources, folded by the merge function
#define VF_MAIN
#include "mergecommon.h"
#include "../harness/tools.h"
using namespace vf;

struct Case {
  SrcFamily fam;
  int merge = 1;     // 0 none, 1 concat, 2 concat failing at call #fail_at
  int fail_at = 1;
  int fail_style = 0;  // 0: callback stores NULL; 1: callback returns without storing a value
  int dupsort = 0;   // 0 none, 1 bytewise on the value, 2 reverse bytewise
  int path = 0;      // 0 iterate, 1 mtbl_source_write into a writer and read back, 2 mtbl_merge tool
  bool valid() const {
    if (!fam.valid() || merge < 0 || merge > 2 || dupsort < 0 || dupsort > 2 || path < 0 || path > 2 || fail_at < 1) return false;
    if (path == 2) {
      if (merge != 1 || dupsort != 0 || fam.srcs.empty() || fam.vmode) return false;  // the tool's merge DSO concatenates
      for (auto &s : fam.srcs)
        if (s.kind != 0) return false;
    }
    if (path == 1 && merge != 1) return false;  // a writer refuses the duplicate keys a merger without merge function emits
    if (merge == 0 && fam.has_dups_within_a_source()) return false;  // order of equal keys inside one source is the source's business
    return true;
  }
  std::string ser() const {
    Out o;
    o << "property C04\n";
    o << "opts merge=" << merge << " fail_at=" << fail_at << " fail_style=" << fail_style << " dupsort=" << dupsort << " path=" << path << "\n";
    fam.ser(o);
    return o.str();
  }
  static Case parse(const std::string &text) {
    Case c;
    for (auto &row : Lines::parse(text).rows) {
      if (row[0] == "opts") {
        for (size_t i = 1; i < row.size(); i++) {
          size_t e = row[i].find('=');
          if (e == std::string::npos) continue;
          std::string k = row[i].substr(0, e);
          int v = atoi(row[i].c_str() + e + 1);
          if (k == "merge") c.merge = v;
          else if (k == "fail_at") c.fail_at = v;
          else if (k == "fail_style") c.fail_style = v & 1;
          else if (k == "dupsort") c.dupsort = v;
          else if (k == "path") c.path = v;
        }
      } else c.fam.parse_row(row);
    }
    return c;
  }
};

static Case gen_case() {
  Case c;
  c.path = weighted({70, 18, 12});
  c.fam = gen_family(16, c.path != 2);
  if (c.path == 2) {
    c.fam.vmode = 0;
    if (c.fam.srcs.empty()) {
      SrcSpec s;
      s.keys.push_back(bytes("a"));
      c.fam.srcs.push_back(s);
    }
    c.merge = 1;
    c.dupsort = 0;
  } else if (c.path == 1) {
    c.merge = 1;
    c.dupsort = weighted({60, 20, 20});
  } else {
    c.merge = weighted({22, 60, 18});
    c.dupsort = weighted({50, 25, 25});
    if (c.merge == 0) c.fam.dedupe_within_sources();
    long long tot = 0;
    for (auto &kv : c.fam.occurrences()) tot += kv.second - 1;
    c.fail_at = pick(1, (int)std::max<long long>(1, tot + 1));
    c.fail_style = chance(50);
  }
  return c;
}

static Result run_case(const Case &c) {
  return run_isolated([&](Result &r) {
    LiveSources ls;
    if (!ls.build(c.fam, r)) return;
    auto occ = c.fam.occurrences();
    RefTable model = c.fam.merged();
    int max_occ = 0;
    bool empty_src = false, empty_key = occ.count(bytes()) > 0;
    for (auto &kv : occ) max_occ = std::max(max_occ, kv.second);
    for (auto &s : c.fam.srcs)
      if (s.keys.empty()) empty_src = true;

    MergeClos mc;
    if (c.merge == 2) {
      mc.fail_at = c.fail_at;
      mc.fail_style = c.fail_style;
    }
    KVs got;
    bool failed_at_end = false;  // iteration ended by a failing next (always true at the natural end as well)
    if (c.path == 2) {
      ensure_tmpdir();
      std::string outp = g_tmpdir + "/merge-out-" + std::to_string(getpid()) + ".mtbl";
      unlink(outp.c_str());
      std::vector<std::string> args = {"mtbl_merge", "-c", "none", "-b", "1024"};
      for (auto &p : ls.paths) args.push_back(p);
      args.push_back(outp);
      const char *dso = getenv("VF_MERGE_DSO");
      setenv("MTBL_MERGE_DSO", dso ? dso : "", 1);
      setenv("MTBL_MERGE_FUNC_PREFIX", "vfm", 1);
      std::string out, err;
      int rc = call_tool_capture(mtbl_merge_main, args, out, &err);
      if (rc != 0) {
        r.failf("mtbl_merge exited %d: %s", rc, err.substr(0, 600).c_str());
        return;
      }
      struct mtbl_reader *rd = mtbl_reader_init(outp.c_str(), nullptr);
      if (!rd) {
        r.failf("output of mtbl_merge does not open as a table");
        return;
      }
      struct mtbl_iter *it = mtbl_source_iter(mtbl_reader_source(rd));
      if (it) {
        got = drain(it);
        mtbl_iter_destroy(&it);
      }
      mtbl_reader_destroy(&rd);
      unlink(outp.c_str());
    } else {
      struct mtbl_merger_options *mo = mtbl_merger_options_init();
      if (c.merge) mtbl_merger_options_set_merge_func(mo, c.fam.merge_func(), &mc);
      if (c.dupsort) mtbl_merger_options_set_dupsort_func(mo, dupsort_bytewise, c.dupsort == 2 ? (void *)1 : nullptr);
      struct mtbl_merger *mg = mtbl_merger_init(mo);
      mtbl_merger_options_destroy(&mo);
      for (auto s : ls.sources) mtbl_merger_add_source(mg, s);
      if (c.path == 1) {
        int fd = new_memfd("vf-merged");
        struct mtbl_writer_options *wo = mtbl_writer_options_init();
        mtbl_writer_options_set_compression(wo, MTBL_COMPRESSION_NONE);
        struct mtbl_writer *w = mtbl_writer_init_fd(fd, wo);
        mtbl_writer_options_destroy(&wo);
        mtbl_res wr = mtbl_source_write(mtbl_merger_source(mg), w);
        mtbl_writer_destroy(&w);
        if (wr != mtbl_res_success) r.failf("mtbl_source_write(merger -> writer) reported failure");
        struct mtbl_reader *rd = open_reader_fd(fd);
        if (rd) {
          struct mtbl_iter *it = mtbl_source_iter(mtbl_reader_source(rd));
          if (it) {
            got = drain(it);
            mtbl_iter_destroy(&it);
          }
          mtbl_reader_destroy(&rd);
        } else r.failf("file written by mtbl_source_write does not open");
        close(fd);
      } else {
        struct mtbl_iter *it = mtbl_source_iter(mtbl_merger_source(mg));
        if (!it) {
          if (!model.e.empty()) r.failf("merger iterator is NULL although the sources hold %zu distinct keys", model.e.size());
        } else {
          got = drain(it);
          const uint8_t *k, *v;
          size_t lk, lv;
          failed_at_end = mtbl_iter_next(it, &k, &lk, &v, &lv) != mtbl_res_success;
          if (!failed_at_end && c.merge != 2) r.failf("next succeeded again after reporting the end");
          mtbl_iter_destroy(&it);
        }
      }
      mtbl_merger_destroy(&mg);
    }

    if (!r.fail) {
      if (c.merge == 0) {
        // every source entry emitted, ascending keys, equal keys ordered by dupsort when set
        std::vector<KV> want;
        for (size_t i = 0; i < c.fam.srcs.size(); i++)
          for (auto &kv : c.fam.content(i)) want.push_back(kv);
        auto canon = [](std::vector<KV> v) {
          std::sort(v.begin(), v.end(), [](const KV &a, const KV &b) {
            int c = bcmp3(a.first, b.first);
            return c ? c < 0 : a.second < b.second;
          });
          return v;
        };
        for (size_t i = 1; i < got.size() && !r.fail; i++) {
          int cmp = bcmp3(got[i - 1].first, got[i].first);
          if (cmp > 0) r.failf("without a merge function: keys out of order at output %zu (%s after %s)", i, show(got[i].first).c_str(), show(got[i - 1].first).c_str());
          else if (cmp == 0 && c.dupsort) {
            int d = dupsort_bytewise(c.dupsort == 2 ? (void *)1 : nullptr, nullptr, 0, U(got[i - 1].second), got[i - 1].second.size(), U(got[i].second), got[i].second.size());
            if (d > 0) r.failf("equal keys %s not ordered by the dupsort function at output %zu", show(got[i].first).c_str(), i);
          }
        }
        if (!r.fail && canon(got) != canon(want)) {
          std::string d = diff_kvs(canon(got), canon(want));
          r.failf("without a merge function the output multiset differs from the union of the sources: %s", d.c_str());
        }
      } else {
        size_t expect_n = model.e.size();
        bytes fail_key;
        bool expect_fail = false;
        if (c.merge == 2) {
          long long cum = 0;
          size_t idx = 0;
          for (auto &kv : model.e) {
            cum += occ[kv.first] - 1;
            if (cum >= c.fail_at) {
              expect_fail = true;
              fail_key = kv.first;
              expect_n = idx;
              break;
            }
            idx++;
          }
        }
        if (got.size() != expect_n) {
          if (expect_fail)
            r.failf("merge callback failed at call %d (while folding key %s): expected exactly the %zu keys before it, got %zu", c.fail_at, show(fail_key).c_str(), expect_n, got.size());
          else
            r.failf("merged output has %zu entries, expected %zu distinct keys%s", got.size(), expect_n,
                    got.size() < expect_n ? (" (first missing " + show(model.e[got.size()].first) + " or earlier)").c_str() : "");
        }
        for (size_t i = 0; i < std::min(got.size(), expect_n) && !r.fail; i++) {
          if (got[i].first != model.e[i].first) r.failf("output %zu has key %s, expected %s", i, show(got[i].first).c_str(), show(model.e[i].first).c_str());
          else if (!c.fam.value_eq(got[i].second, model.e[i].second))
            r.failf("key %s: merged value %s does not fold each source value exactly once (expected %s, up to token order)", show(got[i].first).c_str(),
                    show(got[i].second).c_str(), show(model.e[i].second).c_str());
        }
        if (!r.fail && c.path != 2 && !expect_fail) {
          long long want_calls = 0;
          for (auto &kv : occ) want_calls += kv.second - 1;
          if (mc.calls != want_calls) r.failf("merge function called %lld times, expected occurrences-1 summed over keys = %lld", mc.calls, want_calls);
          for (auto &l : mc.log) {
            // operands must be made of tokens of that key only, disjoint
            bytes both = l.second.first + l.second.second;
            std::vector<bytes> t = tokens_of(both);
            bytes all;
            for (auto &kv : model.e)
              if (kv.first == l.first) all = kv.second;
            std::vector<bytes> allt = tokens_of(all);
            if (!std::includes(allt.begin(), allt.end(), t.begin(), t.end()) || std::adjacent_find(t.begin(), t.end()) != t.end()) {
              r.failf("merge callback for key %s saw operands %s / %s which are not disjoint sets of that key's source values", show(l.first).c_str(),
                      show(l.second.first).c_str(), show(l.second.second).c_str());
              break;
            }
          }
        }
        if (expect_fail) {
          r.tag("merge_callback_failed");
          if (c.fail_style) r.tag("merge_callback_failed_without_storing");
          long long cum = 0;
          for (auto &kv : model.e) {
            long long before = cum;
            cum += occ[kv.first] - 1;
            if (cum >= c.fail_at) {
              if (c.fail_at - before >= 2) r.tag("merge_callback_failed_on_later_fold_of_a_key");
              break;
            }
          }
        }
      }
    }
    r.nontrivial = max_occ >= 2 || empty_src || empty_key;
    if (max_occ >= 2) r.tag("key_in_2plus_sources");
    if (max_occ >= 3) r.tag("fold_depth_3plus");
    if (empty_src) r.tag("empty_source");
    if (empty_key) r.tag("empty_key");
    if (c.fam.srcs.empty()) r.tag("no_sources");
    for (auto &s : c.fam.srcs)
      if (s.kind == 1) r.tag("user_defined_source");
    if (c.fam.has_dups_within_a_source()) r.tag("source_yielding_a_key_twice");
    if (c.fam.vmode) r.tag("shrinking_merge_function");
    if (c.fam.srcs.size() >= 7) r.tag("sources_ge7");
    r.tag("merge_" + std::to_string(c.merge));
    r.tag("dupsort_" + std::to_string(c.dupsort));
    r.tag("path_" + std::to_string(c.path));
  });
}

int main(int argc, char **argv) {
  g_history_enabled = true;  // process-history modes (harness/vf.h): prelude first / the case body twice in one process
  g_prelude_fn = table_prelude;
  return vf_main<Case>(argc, argv, "C04", gen_case, run_case);
}
