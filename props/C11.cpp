// C11 — every well-formed MTBL file is readable, not only the ones today's writer emits
// Files are produced by the independent encoder (harness/refcodec.h) with generated encoding choices.
#define VF_MAIN
#include "readcommon.h"
#include "../harness/refcodec.h"
#include <dirent.h>
using namespace vf;

struct BlockChoice {
  int n = 1;            // entries in this block
  int restart_mode = 0; // 0 every entry, 1 only entry 0, 2 every k (k = restart_k), 3 irregular (bitmask restart_bits)
  int restart_k = 2;
  uint32_t restart_bits = 0;
  int share_mode = 0;   // 0 maximal (LCP), 1 none, 2 pseudo-random amount <= LCP (seeded by share_seed)
  uint32_t share_seed = 0;
  int sep_mode = 0;     // 0 last key, 1 last key + 0xff.., 2 just below the next block's first key, 3 shortest separator, 4 last + one symbol
};
struct Case {
  int version = 2, algo = 0, level = 0;
  int prefix_len = 0;
  int index_restart = 16;
  std::vector<SEntry> entries;
  std::vector<BlockChoice> blocks;  // partition: consumed in order; leftovers go to a final block
  std::vector<IterSpec> iters;
  std::vector<Op> ops;
  uint32_t qseed = 1;
  bool valid() const {
    if (version < 1 || version > 2 || algo < 0 || algo > 5 || prefix_len < 0 || prefix_len > 100000 || index_restart < 1) return false;
    for (auto &b : blocks)
      if (b.n < 1 || b.restart_k < 1) return false;
    if (iters.size() > 4) return false;
    for (auto &o : ops)
      if (o.it < 0 || o.it >= (int)std::max<size_t>(1, iters.size())) return false;
    KVs kv = expand_entries(entries);
    for (size_t i = 1; i < kv.size(); i++)
      if (bcmp3(kv[i - 1].first, kv[i].first) >= 0) return false;
    return true;
  }
  std::string ser() const {
    Out o;
    o << "property C11\n";
    o << "format version=" << version << " algo=" << algo << " level=" << level << " prefix_len=" << prefix_len << " index_restart=" << index_restart
      << " qseed=" << qseed << "\n";
    for (auto &b : blocks)
      o << "block n=" << b.n << " restart_mode=" << b.restart_mode << " restart_k=" << b.restart_k << " restart_bits=" << b.restart_bits
        << " share_mode=" << b.share_mode << " share_seed=" << b.share_seed << " sep_mode=" << b.sep_mode << "\n";
    for (size_t i = 0; i < iters.size(); i++) o << "iter " << i << " " << iters[i].ser() << "\n";
    ser_entries(o, entries);
    for (auto &op : ops) o << op.ser() << "\n";
    return o.str();
  }
  static Case parse(const std::string &t) {
    Case c;
    for (auto &row : Lines::parse(t).rows) {
      auto kvs = [&](std::function<void(const std::string &, long long)> f) {
        for (size_t i = 1; i < row.size(); i++) {
          size_t e = row[i].find('=');
          if (e != std::string::npos) f(row[i].substr(0, e), atoll(row[i].c_str() + e + 1));
        }
      };
      if (row[0] == "format")
        kvs([&](const std::string &k, long long v) {
          if (k == "version") c.version = (int)v;
          else if (k == "algo") c.algo = (int)v;
          else if (k == "level") c.level = (int)v;
          else if (k == "prefix_len") c.prefix_len = (int)v;
          else if (k == "index_restart") c.index_restart = (int)v;
          else if (k == "qseed") c.qseed = (uint32_t)v;
        });
      else if (row[0] == "block") {
        BlockChoice b;
        kvs([&](const std::string &k, long long v) {
          if (k == "n") b.n = (int)v;
          else if (k == "restart_mode") b.restart_mode = (int)v;
          else if (k == "restart_k") b.restart_k = (int)v;
          else if (k == "restart_bits") b.restart_bits = (uint32_t)v;
          else if (k == "share_mode") b.share_mode = (int)v;
          else if (k == "share_seed") b.share_seed = (uint32_t)v;
          else if (k == "sep_mode") b.sep_mode = (int)v;
        });
        c.blocks.push_back(b);
      } else if (row[0] == "entry") c.entries.push_back(parse_entry(row));
      else if (row[0] == "iter") c.iters.push_back(IterSpec::parse(row, 2));
      else if (row[0] == "op") c.ops.push_back(Op::parse(row));
    }
    return c;
  }
};

static bytes own_shortest_separator(const bytes &a, const bytes &limit) {
  // any key k with a <= k < limit; prefer short: first differing byte bumped when possible
  size_t n = std::min(a.size(), limit.size()), i = 0;
  while (i < n && a[i] == limit[i]) i++;
  if (i < n) {
    unsigned char x = (unsigned char)a[i], y = (unsigned char)limit[i];
    if (x + 1 < y) {
      bytes s = a.substr(0, i + 1);
      s[i] = (char)(x + 1);
      return s;
    }
  }
  return a;
}

static ref::EFile build(const Case &c, const KVs &kv) {
  ref::EFile f;
  f.version = c.version;
  f.algo = c.algo;
  f.level = c.level;
  BStr p;
  p.glen = (uint32_t)c.prefix_len;
  p.gseed = 11;
  f.prefix = p.expand();
  f.index_restart_interval = c.index_restart;
  size_t pos = 0, bi = 0;
  std::vector<std::pair<size_t, size_t>> ranges;
  while (pos < kv.size()) {
    size_t n = bi < c.blocks.size() ? (size_t)c.blocks[bi].n : kv.size() - pos;
    n = std::min(n, kv.size() - pos);
    ranges.push_back({pos, n});
    pos += n;
    bi++;
  }
  for (size_t r = 0; r < ranges.size(); r++) {
    BlockChoice ch = r < c.blocks.size() ? c.blocks[r] : BlockChoice();
    ref::EBlock b;
    uint32_t s = ch.share_seed | 1;
    for (size_t j = 0; j < ranges[r].second; j++) {
      ref::EEntry e;
      e.key = kv[ranges[r].first + j].first;
      e.val = kv[ranges[r].first + j].second;
      if (ch.share_mode == 1) e.share = 0;
      else if (ch.share_mode == 2) {
        s = s * 1664525u + 1013904223u;
        e.share = (int)((s >> 16) % 9);
      }
      b.entries.push_back(e);
      bool restart = j == 0;
      if (ch.restart_mode == 0) restart = true;
      else if (ch.restart_mode == 2) restart = restart || (j % (size_t)ch.restart_k == 0);
      else if (ch.restart_mode == 3) restart = restart || ((ch.restart_bits >> (j % 32)) & 1);
      if (restart) b.restart_at.push_back(j);
    }
    const bytes &last = b.entries.back().key;
    bool has_next = r + 1 < ranges.size();
    bytes next_first = has_next ? kv[ranges[r + 1].first].first : bytes();
    bytes sep = last;
    switch (ch.sep_mode) {
      case 1: sep = last + bytes(2, (char)0xff); break;
      case 2: if (has_next) sep = key_pred(next_first); break;
      case 3: if (has_next) sep = own_shortest_separator(last, next_first); break;
      case 4: sep = last + bytes(1, 'a'); break;
      default: break;
    }
    if (bcmp3(sep, last) < 0 || (has_next && bcmp3(sep, next_first) >= 0)) sep = last;  // stay inside the legal interval
    b.separator = sep;
    f.blocks.push_back(b);
  }
  return f;
}

static Case gen_case() {
  Case c;
  c.version = chance(45) ? 1 : 2;
  c.algo = weighted({35, 13, 16, 12, 12, 12});
  c.level = one_of<int>({-1, 0, 1, 5, 9, 12});
  c.prefix_len = chance(25) ? one_of<int>({1, 13, 512, 777}) : 0;
  c.index_restart = one_of<int>({1, 2, 3, 16, 1000});
  KeyUniverse u = gen_universe();
  c.entries = gen_table(1024, 4 + current_size(), chance(5), &u);
  if (!c.entries.empty() && chance(8)) {
    // a stored block above 64 KiB / 128 KiB (length prefixes beyond two bytes; v1 fixed-width prefix with high bytes set)
    c.entries[(size_t)pick(0, (int)c.entries.size() - 1)].v.glen = (uint32_t)one_of<int>({66000, 70000, 140000});
  }
  size_t n = c.entries.size(), pos = 0;
  int style = weighted({30, 30, 25, 15});  // single-entry blocks, small, mixed, one big block
  while (pos < n) {
    BlockChoice b;
    b.n = style == 0 ? 1 : style == 1 ? pick(1, 4) : style == 2 ? pick(1, 40) : (int)n;
    b.restart_mode = weighted({25, 25, 30, 20});
    b.restart_k = pick(1, 9);
    b.restart_bits = pick_u32();
    b.share_mode = weighted({50, 25, 25});
    b.share_seed = pick_u32();
    b.sep_mode = weighted({25, 15, 20, 25, 15});
    c.blocks.push_back(b);
    pos += (size_t)b.n;
  }
  KVs kv = expand_entries(c.entries);
  int ni = weighted({75, 25}) + 1;
  for (int i = 0; i < ni; i++) c.iters.push_back(gen_iter_spec(kv, u));
  c.ops = gen_ops(ni, 25, u);
  c.qseed = (uint32_t)pick(1, 1 << 30);
  return c;
}

static Result run_case(const Case &c) {
  return run_isolated([&](Result &r) {
    RefTable m;
    m.e = expand_entries(c.entries);
    ref::EFile ef = build(c, m.e);
    bool ok = true;
    bytes img = ref::encode_file(ef, &ok);
    if (!ok) {
      r.tag("encoder_refused");  // system compressor refused: nothing to check
      return;
    }
    // decoder o encoder = identity (keeps the harness honest)
    ref::DFile df = ref::decode_file(img);
    if (!df.err.empty() || !diff_kvs(df.all(), m.e).empty()) {
      r.failf("HARNESS: independent decoder does not read back the independent encoder's file: %s", df.err.c_str());
      return;
    }
    int fd = fd_from_bytes(img);
    struct mtbl_reader *rd = open_reader_fd(fd, /*verify*/ c.qseed % 2 == 0, false);
    if (!rd) {
      r.failf("mtbl_reader_init_fd rejects a well-formed v%d file (%zu blocks, algorithm %d)", c.version, ef.blocks.size(), c.algo);
      return;
    }
    const struct mtbl_source *src = mtbl_reader_source(rd);
    struct mtbl_iter *it = mtbl_source_iter(src);
    KVs got = it ? drain(it) : KVs();
    if (it) mtbl_iter_destroy(&it);
    std::string d = diff_kvs(got, m.e);
    if (!d.empty()) r.failf("full iteration differs from the encoded entries: %s", d.c_str());
    std::vector<bytes> seps, lasts, firsts;
    for (auto &b : ef.blocks) {
      seps.push_back(b.separator);
      lasts.push_back(b.entries.back().key);
      firsts.push_back(b.entries.front().key);
    }
    QueryStats qst;
    if (!r.fail) {
      std::vector<bytes> qs = derived_queries(m, seps, {}, c.qseed);
      std::string e = run_queries(src, m, qs, c.qseed, qst, ValueCmp(), &seps, &lasts, &firsts);
      if (!e.empty()) r.failf("%s", e.c_str());
    }
    HistStats hs;
    if (!r.fail && !c.iters.empty()) {
      std::string e = run_history(src, m, c.iters, c.ops, hs);
      if (!e.empty()) r.failf("%s", e.c_str());
    }
    const struct mtbl_metadata *md = mtbl_reader_metadata(rd);
    if (!r.fail && (int)mtbl_metadata_file_version(md) != c.version - 1) r.failf("mtbl_metadata_file_version = %d for a v%d file", (int)mtbl_metadata_file_version(md), c.version);
    mtbl_reader_destroy(&rd);
    close(fd);
    bool nonmax = false, irregular = false, widesep = false, single = false;
    for (size_t i = 0; i < ef.blocks.size(); i++) {
      BlockChoice ch = i < c.blocks.size() ? c.blocks[i] : BlockChoice();
      if (ch.share_mode) nonmax = true;
      if (ch.restart_mode) irregular = true;
      if (ef.blocks[i].separator != ef.blocks[i].entries.back().key) widesep = true;
      if (ef.blocks[i].entries.size() == 1) single = true;
    }
    r.nontrivial = c.version == 1 || nonmax || irregular || widesep;
    r.tag(c.version == 1 ? "format_v1" : "format_v2");
    if (ef.blocks.size() >= 2) r.tag("multi_block");
    if (nonmax) r.tag("non_maximal_sharing");
    if (irregular) r.tag("restarts_not_every_entry");
    if (widesep) r.tag("separator_not_last_key");
    if (single) r.tag("single_entry_block");
    for (auto &b : df.data)
      if (b.stored_len >= 65536) r.tag("stored_block_ge64KiB");
    if (c.prefix_len) r.tag("foreign_prefix");
    r.tag("algo_" + std::to_string(c.algo));
    r.counters["queries_in_index_gap"] = qst.gap_queries;
  });
}

// ---------------------------------------------------------------- blocks above 4 GiB (64-bit restart arrays)
// block_builder -> block_init / block_iter round trip through the library's internal (non-static) block API.
extern "C" {
struct block;
struct block_builder;
struct block_iter;
struct block *block_init(uint8_t *data, size_t size, bool needs_free);
void block_destroy(struct block **);
struct block_iter *block_iter_init(struct block *);
void block_iter_destroy(struct block_iter **);
void block_iter_seek_to_first(struct block_iter *);
void block_iter_seek(struct block_iter *, const uint8_t *key, size_t key_len);
bool block_iter_next(struct block_iter *);
bool block_iter_get(struct block_iter *, const uint8_t **key, size_t *key_len, const uint8_t **val, size_t *val_len);
struct block_builder *block_builder_init(size_t block_restart_interval);
void block_builder_destroy(struct block_builder **);
void block_builder_finish(struct block_builder *, uint8_t **buf, size_t *bufsz);
void block_builder_add(struct block_builder *, const uint8_t *key, size_t len_key, const uint8_t *val, size_t len_val);
}
static int big_block_mode(const WorkerOpts &o, Stats &stats) {
  if (o.worker != 0) return 0;
  long shapes = o.geti("shapes", 1);
  for (long sh = 0; sh < shapes; sh++) {
    uint32_t sd = (uint32_t)(o.seed % 1000) * 7 + (uint32_t)sh * 13 + 1;
    int restart = (int)(1 + lcg(sd) % 5);            // 1..5
    size_t vlen = (40u << 20) + (lcg(sd) % (16u << 20));  // 40..56 MiB per value
    int n = (int)(((4ull << 30) + (300ull << 20)) / vlen) + 2;  // total a little above 4 GiB
    int small_every = (int)(2 + lcg(sd) % 4);          // interleave small entries so restart offsets land everywhere
    std::string desc = "big block: n=" + std::to_string(n) + " vlen=" + std::to_string(vlen) + " restart=" + std::to_string(restart) + " small_every=" + std::to_string(small_every);
    long saved_rss = g_rss_limit_mb;
    g_rss_limit_mb = 24000;
    Result r = run_isolated([&](Result &rr) {
      struct block_builder *bb = block_builder_init((size_t)restart);
      std::vector<std::pair<bytes, size_t>> model;  // key, value length (value = fill byte derived from index)
      uint8_t *val = (uint8_t *)malloc(vlen);
      int idx = 0;
      uint64_t data_bytes = 0;
      for (int i = 0; i < n; i++) {
        for (int rep = 0; rep < 2; rep++) {
          bool small = rep == 1;
          if (small && (i % small_every)) continue;
          char k[48];
          snprintf(k, sizeof k, "bigblock/%06d/%s", i, small ? "s" : "L");
          size_t vl = small ? (size_t)(i % 200) : vlen;
          memset(val, 0x30 + (idx % 50), vl);
          if (vl > 8) {
            memcpy(val, &idx, sizeof idx);
            memcpy(val + vl - 4, &idx, sizeof idx);
          }
          // keys are inserted in ascending order: ".../L" < ".../s"
          block_builder_add(bb, (const uint8_t *)k, strlen(k), val, vl);
          model.emplace_back(bytes(k), vl);
          idx++;
        }
      }
      free(val);
      uint8_t *buf = nullptr;
      size_t sz = 0;
      block_builder_finish(bb, &buf, &sz);
      block_builder_destroy(&bb);
      (void)data_bytes;
      if (sz <= 0xFFFFFFFFull) {
        rr.failf("HARNESS: block is only %zu bytes, not above 4 GiB", sz);
        free(buf);
        return;
      }
      // the restart array must be 64-bit: num_restarts entries of 8 bytes + 4
      uint32_t nr = ref::get_le32(buf + sz - 4);
      size_t want_restarts = (model.size() + (size_t)restart - 1) / (size_t)restart;
      if (nr != want_restarts) rr.failf("num_restarts = %u for %zu entries at interval %d (expected %zu)", nr, model.size(), restart, want_restarts);
      uint64_t ra = sz - 4 - 8ull * nr;
      if (!rr.fail && ra <= 0xFFFFFFFFull) rr.failf("restart array of a > 4 GiB block does not start above 2^32 (offset %llu)", (unsigned long long)ra);
      if (!rr.fail && ref::get_le64(buf + ra) != 0) rr.failf("first 64-bit restart offset is not 0");
      struct block *b = block_init(buf, sz, false);
      struct block_iter *bi = block_iter_init(b);
      block_iter_seek_to_first(bi);
      size_t i = 0;
      const uint8_t *k, *v;
      size_t lk, lv;
      while (!rr.fail && block_iter_get(bi, &k, &lk, &v, &lv)) {
        if (i >= model.size()) {
          rr.failf("iteration returned more than the %zu entries added", model.size());
          break;
        }
        int tag = 0;
        if (bytes((const char *)k, lk) != model[i].first || lv != model[i].second) rr.failf("entry %zu: key/value length differ from what was added", i);
        else if (lv > 8 && (memcpy(&tag, v, 4), tag != (int)i)) rr.failf("entry %zu: value head differs", i);
        else if (lv > 8 && (memcpy(&tag, v + lv - 4, 4), tag != (int)i)) rr.failf("entry %zu: value tail differs", i);
        i++;
        if (!block_iter_next(bi)) break;
      }
      if (!rr.fail && i != model.size()) rr.failf("iteration returned %zu of %zu entries", i, model.size());
      // seeks: every key (exact) forwards and a few backwards, successor keys, beyond-last
      for (size_t j = 0; j < model.size() && !rr.fail; j += 3) {
        size_t t = (j * 7) % model.size();
        block_iter_seek(bi, U(model[t].first), model[t].first.size());
        if (!block_iter_get(bi, &k, &lk, &v, &lv) || bytes((const char *)k, lk) != model[t].first) rr.failf("seek to stored key #%zu did not land on it", t);
        bytes succ = model[t].first + bytes(1, '\0');
        block_iter_seek(bi, U(succ), succ.size());
        bool got = block_iter_get(bi, &k, &lk, &v, &lv);
        if (t + 1 < model.size()) {
          if (!got || bytes((const char *)k, lk) != model[t + 1].first) rr.failf("seek just after key #%zu did not land on its successor", t);
        } else if (got) rr.failf("seek beyond the last key returned an entry");
      }
      block_iter_destroy(&bi);
      block_destroy(&b);
      free(buf);
      rr.nontrivial = true;
      rr.tag("block_gt_4GiB_64bit_restart_array");
      rr.counters["big_block_entries"] = (long long)model.size();
      rr.counters["big_block_bytes"] = (long long)sz;
    }, 1500);
    g_rss_limit_mb = saved_rss;
    stats.add("property C11\n# " + desc + "\n", r);
    if (r.fail) {
      write_file(o.outdir + "/fail.case", "property C11\n# " + desc + " (re-run: ./vf C11 --tier thorough)\n");
      write_file(o.outdir + "/fail.msg", r.msg);
      return 1;
    }
  }
  return 0;
}

// checked-in sample files: the library reader and the independent decoder must agree (triangulates the decoder)
static int extra_modes(const WorkerOpts &o, Stats &stats) {
  if (o.mode == "big4g") return big_block_mode(o, stats);
  if (o.mode != "samples") return 2;
  if (o.worker != 0) return 0;
  const char *repo = getenv("VERIF_REPO");
  std::string dir = std::string(repo ? repo : "/repo") + "/t";
  DIR *dp = opendir(dir.c_str());
  if (!dp) return 0;
  std::vector<std::string> files;
  while (struct dirent *e = readdir(dp)) {
    std::string n = e->d_name;
    if (n.size() > 5 && n.substr(n.size() - 5) == ".data" && n.find("bad") == std::string::npos) files.push_back(dir + "/" + n);
  }
  closedir(dp);
  std::sort(files.begin(), files.end());
  for (auto &f : files) {
    Result r = run_isolated([&](Result &rr) {
      bytes img = read_file(f);
      ref::DFile df = ref::decode_file(img);
      struct mtbl_reader *rd = mtbl_reader_init(f.c_str(), nullptr);
      if (!rd) {
        if (df.err.empty()) rr.failf("reader rejects %s which the independent decoder accepts", f.c_str());
        return;
      }
      struct mtbl_iter *it = mtbl_source_iter(mtbl_reader_source(rd));
      KVs got = it ? drain(it) : KVs();
      if (it) mtbl_iter_destroy(&it);
      mtbl_reader_destroy(&rd);
      if (!df.err.empty()) rr.failf("independent decoder rejects %s (%s) which the reader accepts", f.c_str(), df.err.c_str());
      else {
        std::string d = diff_kvs(got, df.all());
        if (!d.empty()) rr.failf("%s: reader and independent decoder disagree: %s", f.c_str(), d.c_str());
      }
      rr.nontrivial = true;
      rr.tag(df.version == 1 ? "sample_v1" : "sample_v2");
      rr.counters["sample_entries"] = (long long)got.size();
    });
    stats.add("property C11\n# checked-in sample " + f.substr(f.rfind('/') + 1) + "\n", r);
    if (r.fail) {
      write_file(o.outdir + "/fail.msg", r.msg);
      write_file(o.outdir + "/fail.case", "property C11\n# sample file " + f + "\n");
      return 1;
    }
  }
  return 0;
}

int main(int argc, char **argv) { return vf_main<Case>(argc, argv, "C11", gen_case, run_case, extra_modes); }
