// C11 — every well-formed MTBL file is readable, not only the ones today's writer emits
// Files are produced by the independent encoder (harness/refcodec.h) with generated encoding choices.
#define VF_MAIN
#include "c11_common.h"
#include <dirent.h>

static Case gen_case() {
  Case c;
  c.version = chance(45) ? 1 : 2;
  c.algo = weighted({35, 13, 16, 12, 12, 12});
  c.level = one_of<int>({-1, 0, 1, 5, 9, 12});
  if (chance(40)) c.zlib_wbits = pick(9, 15);  // zlib streams that declare smaller windows, varying from block to block
  c.prefix_len = chance(25) ? one_of<int>({1, 13, 512, 777}) : 0;
  c.index_restart = one_of<int>({1, 2, 3, 16, 1000});
  KeyUniverse u = gen_universe();
  c.entries = gen_table(1024, 4 + current_size(), chance(5), &u);
  if (!c.entries.empty() && chance(8)) {
    // a stored block above 64 KiB / 128 KiB (length prefixes beyond two bytes; v1 fixed-width prefix with high bytes set)
    c.entries[(size_t)pick(0, (int)c.entries.size() - 1)].v.glen = (uint32_t)one_of<int>({66000, 70000, 140000});
  }
  size_t n = c.entries.size(), pos = 0;
  int style = weighted({30, 30, 25, 15});  // single-entry blocks, small, mixed, one big block
  while (pos < n) {
    BlockChoice b;
    b.n = style == 0 ? 1 : style == 1 ? pick(1, 4) : style == 2 ? pick(1, 40) : (int)n;
    b.restart_mode = weighted({25, 25, 30, 20});
    b.restart_k = pick(1, 9);
    b.restart_bits = pick_u32();
    b.share_mode = weighted({50, 25, 25});
    b.share_seed = pick_u32();
    b.sep_mode = weighted({25, 15, 20, 25, 15});
    c.blocks.push_back(b);
    pos += (size_t)b.n;
  }
  KVs kv = expand_entries(c.entries);
  int ni = weighted({75, 25}) + 1;
  for (int i = 0; i < ni; i++) c.iters.push_back(gen_iter_spec(kv, u));
  c.ops = gen_ops(ni, 25, u);
  c.qseed = (uint32_t)pick(1, 1 << 30);
  return c;
}

static Case decode_fuzz11(const uint8_t *d, size_t n);
static Result run_case(const Case &c0) {
  return run_isolated([&](Result &r) {
    if (!c0.fuzz.empty()) {
      Case c = decode_fuzz11((const uint8_t *)c0.fuzz.data(), c0.fuzz.size());
      check_case(c, r);
      r.tag("from_fuzzer_artifact");
    } else check_case(c0, r);
  });
}

// ---------------------------------------------------------------- blocks above 4 GiB (64-bit restart arrays)
// block_builder -> block_init / block_iter round trip through the library's internal (non-static) block API.
extern "C" {
struct block;
struct block_builder;
struct block_iter;
struct block *block_init(uint8_t *data, size_t size, bool needs_free);
void block_destroy(struct block **);
struct block_iter *block_iter_init(struct block *);
void block_iter_destroy(struct block_iter **);
void block_iter_seek_to_first(struct block_iter *);
void block_iter_seek(struct block_iter *, const uint8_t *key, size_t key_len);
bool block_iter_next(struct block_iter *);
bool block_iter_get(struct block_iter *, const uint8_t **key, size_t *key_len, const uint8_t **val, size_t *val_len);
struct block_builder *block_builder_init(size_t block_restart_interval);
void block_builder_destroy(struct block_builder **);
void block_builder_finish(struct block_builder *, uint8_t **buf, size_t *bufsz);
void block_builder_add(struct block_builder *, const uint8_t *key, size_t len_key, const uint8_t *val, size_t len_val);
}
static int big_block_mode(const WorkerOpts &o, Stats &stats) {
  if (o.worker != 0) return 0;
  long shapes = o.geti("shapes", 1);
  for (long sh = 0; sh < shapes; sh++) {
    uint32_t sd = (uint32_t)(o.seed % 1000) * 7 + (uint32_t)sh * 13 + 1;
    int restart = (int)(1 + lcg(sd) % 5);            // 1..5
    size_t vlen = (40u << 20) + (lcg(sd) % (16u << 20));  // 40..56 MiB per value
    int n = (int)(((4ull << 30) + (300ull << 20)) / vlen) + 2;  // total a little above 4 GiB
    int small_every = (int)(2 + lcg(sd) % 4);          // interleave small entries so restart offsets land everywhere
    std::string desc = "big block: n=" + std::to_string(n) + " vlen=" + std::to_string(vlen) + " restart=" + std::to_string(restart) + " small_every=" + std::to_string(small_every);
    long saved_rss = g_rss_limit_mb;
    g_rss_limit_mb = 24000;
    Result r = run_isolated([&](Result &rr) {
      struct block_builder *bb = block_builder_init((size_t)restart);
      std::vector<std::pair<bytes, size_t>> model;  // key, value length (value = fill byte derived from index)
      uint8_t *val = (uint8_t *)malloc(vlen);
      int idx = 0;
      uint64_t data_bytes = 0;
      for (int i = 0; i < n; i++) {
        for (int rep = 0; rep < 2; rep++) {
          bool small = rep == 1;
          if (small && (i % small_every)) continue;
          char k[48];
          snprintf(k, sizeof k, "bigblock/%06d/%s", i, small ? "s" : "L");
          size_t vl = small ? (size_t)(i % 200) : vlen;
          memset(val, 0x30 + (idx % 50), vl);
          if (vl > 8) {
            memcpy(val, &idx, sizeof idx);
            memcpy(val + vl - 4, &idx, sizeof idx);
          }
          // keys are inserted in ascending order: ".../L" < ".../s"
          block_builder_add(bb, (const uint8_t *)k, strlen(k), val, vl);
          model.emplace_back(bytes(k), vl);
          idx++;
        }
      }
      free(val);
      uint8_t *buf = nullptr;
      size_t sz = 0;
      block_builder_finish(bb, &buf, &sz);
      block_builder_destroy(&bb);
      (void)data_bytes;
      if (sz <= 0xFFFFFFFFull) {
        rr.failf("HARNESS: block is only %zu bytes, not above 4 GiB", sz);
        free(buf);
        return;
      }
      // the restart array must be 64-bit: num_restarts entries of 8 bytes + 4
      uint32_t nr = ref::get_le32(buf + sz - 4);
      size_t want_restarts = (model.size() + (size_t)restart - 1) / (size_t)restart;
      if (nr != want_restarts) rr.failf("num_restarts = %u for %zu entries at interval %d (expected %zu)", nr, model.size(), restart, want_restarts);
      uint64_t ra = sz - 4 - 8ull * nr;
      if (!rr.fail && ra <= 0xFFFFFFFFull) rr.failf("restart array of a > 4 GiB block does not start above 2^32 (offset %llu)", (unsigned long long)ra);
      if (!rr.fail && ref::get_le64(buf + ra) != 0) rr.failf("first 64-bit restart offset is not 0");
      struct block *b = block_init(buf, sz, false);
      struct block_iter *bi = block_iter_init(b);
      block_iter_seek_to_first(bi);
      size_t i = 0;
      const uint8_t *k, *v;
      size_t lk, lv;
      while (!rr.fail && block_iter_get(bi, &k, &lk, &v, &lv)) {
        if (i >= model.size()) {
          rr.failf("iteration returned more than the %zu entries added", model.size());
          break;
        }
        int tag = 0;
        if (bytes((const char *)k, lk) != model[i].first || lv != model[i].second) rr.failf("entry %zu: key/value length differ from what was added", i);
        else if (lv > 8 && (memcpy(&tag, v, 4), tag != (int)i)) rr.failf("entry %zu: value head differs", i);
        else if (lv > 8 && (memcpy(&tag, v + lv - 4, 4), tag != (int)i)) rr.failf("entry %zu: value tail differs", i);
        i++;
        if (!block_iter_next(bi)) break;
      }
      if (!rr.fail && i != model.size()) rr.failf("iteration returned %zu of %zu entries", i, model.size());
      // seeks: every key (exact) forwards and a few backwards, successor keys, beyond-last
      for (size_t j = 0; j < model.size() && !rr.fail; j += 3) {
        size_t t = (j * 7) % model.size();
        block_iter_seek(bi, U(model[t].first), model[t].first.size());
        if (!block_iter_get(bi, &k, &lk, &v, &lv) || bytes((const char *)k, lk) != model[t].first) rr.failf("seek to stored key #%zu did not land on it", t);
        bytes succ = model[t].first + bytes(1, '\0');
        block_iter_seek(bi, U(succ), succ.size());
        bool got = block_iter_get(bi, &k, &lk, &v, &lv);
        if (t + 1 < model.size()) {
          if (!got || bytes((const char *)k, lk) != model[t + 1].first) rr.failf("seek just after key #%zu did not land on its successor", t);
        } else if (got) rr.failf("seek beyond the last key returned an entry");
      }
      block_iter_destroy(&bi);
      block_destroy(&b);
      free(buf);
      rr.nontrivial = true;
      rr.tag("block_gt_4GiB_64bit_restart_array");
      rr.counters["big_block_entries"] = (long long)model.size();
      rr.counters["big_block_bytes"] = (long long)sz;
    }, 1500);
    g_rss_limit_mb = saved_rss;
    stats.add("property C11\n# " + desc + "\n", r);
    if (r.fail) {
      write_file(o.outdir + "/fail.case", "property C11\n# " + desc + " (re-run: ./vf C11 --tier thorough)\n");
      write_file(o.outdir + "/fail.msg", r.msg);
      return 1;
    }
  }
  return 0;
}

// checked-in sample files: the library reader and the independent decoder must agree (triangulates the decoder)
static int extra_modes(const WorkerOpts &o, Stats &stats) {
  if (o.mode == "big4g") return big_block_mode(o, stats);
  if (o.mode != "samples") return 2;
  if (o.worker != 0) return 0;
  const char *repo = getenv("VERIF_REPO");
  std::string dir = std::string(repo ? repo : "/repo") + "/t";
  DIR *dp = opendir(dir.c_str());
  if (!dp) return 0;
  std::vector<std::string> files;
  while (struct dirent *e = readdir(dp)) {
    std::string n = e->d_name;
    if (n.size() > 5 && n.substr(n.size() - 5) == ".data" && n.find("bad") == std::string::npos) files.push_back(dir + "/" + n);
  }
  closedir(dp);
  std::sort(files.begin(), files.end());
  for (auto &f : files) {
    Result r = run_isolated([&](Result &rr) {
      bytes img = read_file(f);
      ref::DFile df = ref::decode_file(img);
      struct mtbl_reader *rd = mtbl_reader_init(f.c_str(), nullptr);
      if (!rd) {
        if (df.err.empty()) rr.failf("reader rejects %s which the independent decoder accepts", f.c_str());
        return;
      }
      struct mtbl_iter *it = mtbl_source_iter(mtbl_reader_source(rd));
      KVs got = it ? drain(it) : KVs();
      if (it) mtbl_iter_destroy(&it);
      mtbl_reader_destroy(&rd);
      if (!df.err.empty()) rr.failf("independent decoder rejects %s (%s) which the reader accepts", f.c_str(), df.err.c_str());
      else {
        std::string d = diff_kvs(got, df.all());
        if (!d.empty()) rr.failf("%s: reader and independent decoder disagree: %s", f.c_str(), d.c_str());
      }
      rr.nontrivial = true;
      rr.tag(df.version == 1 ? "sample_v1" : "sample_v2");
      rr.counters["sample_entries"] = (long long)got.size();
    });
    stats.add("property C11\n# checked-in sample " + f.substr(f.rfind('/') + 1) + "\n", r);
    if (r.fail) {
      write_file(o.outdir + "/fail.msg", r.msg);
      write_file(o.outdir + "/fail.case", "property C11\n# sample file " + f + "\n");
      return 1;
    }
  }
  return 0;
}

int main(int argc, char **argv) {
  g_history_enabled = true;  // process-history modes (harness/vf.h): prelude first / the case body twice in one process
  g_prelude_fn = table_prelude;
  return vf_main<Case>(argc, argv, "C11", gen_case, run_case, extra_modes);
}
