// C16 — varint and fixed-width integer codecs are exact inverses in standard form
#define VF_MAIN
#include "../harness/vf.h"
using namespace vf;

struct Case {
  std::string what = "v32";  // v32 | v64 | fixed32 | fixed64 | packed
  uint64_t v = 0;
  int align = 0;
  bool valid() const { return align >= 0 && align < 64; }
  std::string ser() const {
    Out o;
    o << "property C16\ncheck " << what << " " << v << " " << align << "\n";
    return o.str();
  }
  static Case parse(const std::string &t) {
    Case c;
    for (auto &row : Lines::parse(t).rows)
      if (row[0] == "check" && row.size() >= 3) {
        c.what = row[1];
        c.v = toull(row[2]);
        c.align = row.size() > 3 ? atoi(row[3].c_str()) : 0;
      }
    return c;
  }
};

// reference base-128 little-endian encoding
static inline unsigned ref_varint(uint64_t v, uint8_t *out) {
  unsigned n = 0;
  while (v >= 0x80) {
    out[n++] = (uint8_t)((v & 0x7f) | 0x80);
    v >>= 7;
  }
  out[n++] = (uint8_t)v;
  return n;
}

static char g_err[512];
#define BAD(...) do { snprintf(g_err, sizeof g_err, __VA_ARGS__); return false; } while (0)

// exact-size heap buffers so that a one-byte overrun is an ASan report
static bool check_v32(uint32_t v) {
  uint8_t ref[10];
  unsigned rn = ref_varint(v, ref);
  uint8_t *buf = (uint8_t *)malloc(rn);
  size_t n = mtbl_varint_encode32(buf, v);
  bool ok = n == rn && memcmp(buf, ref, rn) == 0;
  if (!ok) { free(buf); BAD("mtbl_varint_encode32(%u): wrote %zu bytes, standard base-128 form has %u", v, n, rn); }
  uint32_t d32 = ~v;
  uint64_t d64 = ~(uint64_t)v;
  size_t a = mtbl_varint_decode32(buf, &d32), b = mtbl_varint_decode64(buf, &d64);
  unsigned l = mtbl_varint_length(v), lp = mtbl_varint_length_packed(buf, rn), lt = mtbl_varint_length_packed(buf, rn - 1);
  uint8_t *b64 = (uint8_t *)malloc(rn);
  size_t n64 = mtbl_varint_encode64(b64, v);
  bool same64 = n64 == rn && memcmp(b64, ref, rn) == 0;
  free(b64);
  free(buf);
  if (a != rn || d32 != v) BAD("mtbl_varint_decode32 of encode32(%u): consumed %zu bytes (expected %u), value %u", v, a, rn, d32);
  if (b != rn || d64 != v) BAD("mtbl_varint_decode64 of encode32(%u): consumed %zu bytes (expected %u), value %llu", v, b, rn, (unsigned long long)d64);
  if (l != rn) BAD("mtbl_varint_length(%u) = %u, encoding has %u bytes", v, l, rn);
  if (lp != rn) BAD("mtbl_varint_length_packed(encode32(%u)) = %u, encoding has %u bytes", v, lp, rn);
  if (lt != 0) BAD("mtbl_varint_length_packed on the encoding of %u truncated to %u bytes = %u, expected 0", v, rn - 1, lt);
  if (!same64) BAD("mtbl_varint_encode64(%u) differs from the standard form", v);
  return true;
}
static bool check_v64(uint64_t v) {
  uint8_t ref[10];
  unsigned rn = ref_varint(v, ref);
  uint8_t *buf = (uint8_t *)malloc(rn);
  size_t n = mtbl_varint_encode64(buf, v);
  bool ok = n == rn && memcmp(buf, ref, rn) == 0;
  if (!ok) { free(buf); BAD("mtbl_varint_encode64(%llu): wrote %zu bytes, standard base-128 form has %u", (unsigned long long)v, n, rn); }
  uint64_t d64 = ~v;
  size_t b = mtbl_varint_decode64(buf, &d64);
  unsigned l = mtbl_varint_length(v), lp = mtbl_varint_length_packed(buf, rn), lt = mtbl_varint_length_packed(buf, rn - 1);
  // extra bytes after the terminator do not matter
  uint8_t *big = (uint8_t *)malloc(rn + 3);
  memcpy(big, buf, rn);
  big[rn] = 0x80;
  big[rn + 1] = 0xff;
  big[rn + 2] = 0x01;
  unsigned lp2 = mtbl_varint_length_packed(big, rn + 3);
  free(big);
  free(buf);
  if (b != rn || d64 != v) BAD("mtbl_varint_decode64 of encode64(%llu): consumed %zu bytes (expected %u), value %llu", (unsigned long long)v, b, rn, (unsigned long long)d64);
  if (l != rn) BAD("mtbl_varint_length(%llu) = %u, encoding has %u bytes", (unsigned long long)v, l, rn);
  if (lp != rn || lp2 != rn) BAD("mtbl_varint_length_packed(encode64(%llu)) = %u/%u, encoding has %u bytes", (unsigned long long)v, lp, lp2, rn);
  if (lt != 0) BAD("mtbl_varint_length_packed on the truncated encoding of %llu = %u, expected 0", (unsigned long long)v, lt);
  if (v <= 0xFFFFFFFFull) return check_v32((uint32_t)v);
  return true;
}
static bool check_fixed32(uint32_t v, int align) {
  uint8_t *base = (uint8_t *)malloc((size_t)align + 4);
  memset(base, 0xCC, (size_t)align + 4);
  size_t n = mtbl_fixed_encode32(base + align, v);
  bool ok = n == 4;
  for (int i = 0; i < 4; i++) ok = ok && base[align + i] == (uint8_t)(v >> (8 * i));
  for (int i = 0; i < align; i++) ok = ok && base[i] == 0xCC;
  uint32_t d = mtbl_fixed_decode32(base + align);
  free(base);
  if (!ok) BAD("mtbl_fixed_encode32(%u) at alignment %d is not 4 little-endian bytes / touched neighbours", v, align);
  if (d != v) BAD("mtbl_fixed_decode32(encode32(%u)) at alignment %d = %u", v, align, d);
  return true;
}
static bool check_fixed64(uint64_t v, int align) {
  uint8_t *base = (uint8_t *)malloc((size_t)align + 8);
  memset(base, 0xCC, (size_t)align + 8);
  size_t n = mtbl_fixed_encode64(base + align, v);
  bool ok = n == 8;
  for (int i = 0; i < 8; i++) ok = ok && base[align + i] == (uint8_t)(v >> (8 * i));
  for (int i = 0; i < align; i++) ok = ok && base[i] == 0xCC;
  uint64_t d = mtbl_fixed_decode64(base + align);
  free(base);
  if (!ok) BAD("mtbl_fixed_encode64(%llu) at alignment %d is not 8 little-endian bytes / touched neighbours", (unsigned long long)v, align);
  if (d != v) BAD("mtbl_fixed_decode64(encode64(%llu)) at alignment %d = %llu", (unsigned long long)v, align, (unsigned long long)d);
  return true;
}
// A caller that keeps ONE scratch buffer and re-reads it after rewriting it, all inside one function compiled with
// optimisation against the repository's own mtbl.h: "exact inverses" has to survive whatever the declarations in that header
// let the caller's compiler assume (e.g. a decode function wrongly declared __attribute__((const)) is folded with the
// earlier call on the same address).
static bool check_reuse(uint64_t v) {
  uint8_t buf[24];
  memset(buf, 0, sizeof buf);
  uint64_t w = ~v;
  mtbl_fixed_encode64(buf, v);
  uint64_t a64 = mtbl_fixed_decode64(buf);
  mtbl_fixed_encode64(buf, w);
  uint64_t b64 = mtbl_fixed_decode64(buf);
  if (a64 != v || b64 != w) BAD("fixed64 scratch buffer reused: decode after encode(%llu) = %llu, after re-encoding %llu in the same place = %llu", (unsigned long long)v, (unsigned long long)a64, (unsigned long long)w, (unsigned long long)b64);
  mtbl_fixed_encode32(buf, (uint32_t)v);
  uint32_t a32 = mtbl_fixed_decode32(buf);
  mtbl_fixed_encode32(buf, (uint32_t)w);
  uint32_t b32 = mtbl_fixed_decode32(buf);
  if (a32 != (uint32_t)v || b32 != (uint32_t)w) BAD("fixed32 scratch buffer reused: decode after encode(%u) = %u, after re-encoding %u in the same place = %u", (uint32_t)v, a32, (uint32_t)w, b32);
  uint8_t r1[10], r2[10];
  unsigned l1 = ref_varint(v, r1), l2 = ref_varint(w, r2);
  memset(buf, 0, sizeof buf);
  size_t n1 = mtbl_varint_encode64(buf, v);
  unsigned p1 = mtbl_varint_length_packed(buf, 10);
  uint64_t d1 = 0;
  unsigned c1 = mtbl_varint_decode64(buf, &d1);
  memset(buf, 0, sizeof buf);
  size_t n2 = mtbl_varint_encode64(buf, w);
  unsigned p2 = mtbl_varint_length_packed(buf, 10);
  uint64_t d2 = 0;
  unsigned c2 = mtbl_varint_decode64(buf, &d2);
  if (n1 != l1 || p1 != l1 || c1 != l1 || d1 != v || n2 != l2 || p2 != l2 || c2 != l2 || d2 != w)
    BAD("varint scratch buffer reused: value %llu -> encode %zu / length_packed %u / decode %u -> %llu (expected %u bytes); then %llu in the same place -> %zu / %u / %u -> %llu (expected %u bytes)",
        (unsigned long long)v, n1, p1, c1, (unsigned long long)d1, l1, (unsigned long long)w, n2, p2, c2, (unsigned long long)d2, l2);
  return true;
}
// Over-long (zero-padded) encodings for decode: the standard encoding of v with the continuation bit set on its last byte,
// followed by pad-1 bytes 0x80 and a final 0x00.  In base 128 this still denotes v.  A decoder may refuse it (return 0) -
// the statement does not promise that it decodes - but if it reports success, value and length must be the base-128 ones.
static bool check_overlong(uint64_t v, int pad) {
  uint8_t buf[16];
  memset(buf, 0, sizeof buf);
  unsigned l = ref_varint(v, buf);
  if (pad < 1 || l + (unsigned)pad > 10) return true;
  buf[l - 1] |= 0x80;
  for (int i = 0; i < pad - 1; i++) buf[l + (unsigned)i] = 0x80;
  buf[l + (unsigned)pad - 1] = 0x00;
  unsigned total = l + (unsigned)pad;
  uint64_t d64 = 0x1111;
  unsigned c64 = mtbl_varint_decode64(buf, &d64);
  if (c64 != 0 && (c64 != total || d64 != v))
    BAD("mtbl_varint_decode64 of the %u-byte zero-padded encoding of %llu reported success with value %llu, length %u (base-128 value %llu, length %u)", total,
        (unsigned long long)v, (unsigned long long)d64, c64, (unsigned long long)v, total);
  if (v <= 0xFFFFFFFFull && total <= 5) {
    uint32_t d32 = 0x1111;
    unsigned c32 = mtbl_varint_decode32(buf, &d32);
    if (c32 != 0 && (c32 != total || d32 != (uint32_t)v))
      BAD("mtbl_varint_decode32 of the %u-byte zero-padded encoding of %llu reported success with value %u, length %u", total, (unsigned long long)v, d32, c32);
  }
  unsigned lp = mtbl_varint_length_packed(buf, 10);
  if (lp != 0 && lp != total) BAD("mtbl_varint_length_packed of the %u-byte zero-padded encoding of %llu = %u", total, (unsigned long long)v, lp);
  return true;
}
// over-long / unterminated runs: v = number of continuation bytes
static bool check_packed(uint64_t k) {
  // k continuation bytes followed by a terminator; beyond 9 continuation bytes the byte string is no valid 64-bit varint
  // and what length_packed answers is not specified, so only the "no terminator inside the window => 0" half is checked there
  if (k > 40) k = 40;
  uint8_t *buf = (uint8_t *)malloc((size_t)k + 1);
  for (uint64_t i = 0; i < k; i++) buf[i] = (uint8_t)(0x80 | (i * 37 & 0x7f));
  buf[k] = 0x01;
  unsigned lp = mtbl_varint_length_packed(buf, (size_t)k + 1);
  unsigned lu = mtbl_varint_length_packed(buf, (size_t)k);  // unterminated within the given length
  bool ok = true;
  if (k <= 9 && lp != k + 1) { snprintf(g_err, sizeof g_err, "mtbl_varint_length_packed: %llu continuation bytes + terminator -> %u, expected %llu", (unsigned long long)k, lp, (unsigned long long)k + 1); ok = false; }
  else if (lu != 0) { snprintf(g_err, sizeof g_err, "mtbl_varint_length_packed: %llu continuation bytes without terminator -> %u, expected 0", (unsigned long long)k, lu); ok = false; }
  if (ok && k >= 5) {
    uint32_t d = 123;
    size_t r = mtbl_varint_decode32(buf, &d);
    if (r != 0) { snprintf(g_err, sizeof g_err, "mtbl_varint_decode32 of an unterminated 5-byte run returned %zu, expected 0", r); ok = false; }
  }
  if (ok && k >= 10) {
    uint64_t d = 123;
    size_t r = mtbl_varint_decode64(buf, &d);
    if (r != 0) { snprintf(g_err, sizeof g_err, "mtbl_varint_decode64 of an unterminated 10-byte run returned %zu, expected 0", r); ok = false; }
  }
  free(buf);
  return ok;
}

static Case g_cur;  // the case under evaluation, for the sanitizer death hook
static void death_case(std::string &ctext, std::string &msg) {
  ctext = g_cur.ser();
  msg = g_cur.what;
}
static bool check_one(const Case &c) {
  g_cur = c;
  if (c.what == "v32") return check_v32((uint32_t)c.v);
  if (c.what == "v64") return check_v64(c.v);
  if (c.what == "fixed32") return check_fixed32((uint32_t)c.v, c.align);
  if (c.what == "fixed64") return check_fixed64(c.v, c.align);
  if (c.what == "packed") return check_packed(c.v);
  if (c.what == "reuse") return check_reuse(c.v);
  if (c.what == "overlong") return check_overlong(c.v, 1 + c.align % 8);
  return true;
}
static Result run_case(const Case &c) {
  Result r;
  if (!check_one(c)) r.failf("%s", g_err);
  r.nontrivial = c.v >= 128;
  return r;
}
static Case gen_case() {
  Case c;
  c.what = one_of<std::string>({"v32", "v64", "fixed32", "fixed64", "packed", "reuse", "overlong"});
  int bits = pick(0, 64);
  uint64_t v = ((uint64_t)pick_u32() << 32) | pick_u32();
  c.v = bits == 0 ? 0 : bits == 64 ? v : (v & ((1ull << bits) - 1)) | (1ull << (bits - 1));
  if (c.what == "packed") c.v = (uint64_t)pick(0, 20);
  c.align = pick(0, 7);
  return c;
}

static inline uint64_t mix64(uint64_t x) {  // bijection on 64-bit integers (splitmix64 finaliser)
  x ^= x >> 30; x *= 0xbf58476d1ce4e5b9ull; x ^= x >> 27; x *= 0x94d049bb133111ebull; x ^= x >> 31;
  return x;
}
static inline uint32_t mix32(uint32_t x) {  // bijection on 32-bit integers
  x ^= x >> 16; x *= 0x7feb352dU; x ^= x >> 15; x *= 0x846ca68bU; x ^= x >> 16;
  return x;
}

static int fail_out(const WorkerOpts &o, const Case &c) {
  write_file(o.outdir + "/fail.case", c.ser());
  write_file(o.outdir + "/fail.msg", g_err);
  fprintf(stderr, "FAIL %s", c.ser().c_str());
  return 1;
}
#define CHECK(what_, v_, al_, expr) do { g_cur.what = what_; g_cur.v = (v_); g_cur.align = (al_); if (!(expr)) { Case c_; c_.what = what_; c_.v = (v_); c_.align = (al_); return fail_out(o, c_); } n_eval++; } while (0)

static int extra_modes(const WorkerOpts &o, Stats &stats) {
  long long n_eval = 0, n_multi = 0;
  if (o.mode == "bounds") {
    // every value within +-2 of each 2^(7k) and 2^k boundary, walking ones / zeros; fixed codecs at offsets 0..7; packed runs
    if (o.worker == 0) {
      std::set<uint64_t> vs;
      for (int k = 0; k <= 64; k++) {
        uint64_t p = k == 64 ? 0 : (1ull << k);
        for (int d = -2; d <= 2; d++) vs.insert(p + (uint64_t)d);
        if (k < 64) {
          vs.insert(~p);
          vs.insert(p | (p - 1));
        }
      }
      for (int k = 1; k <= 9; k++)
        for (int d = -2; d <= 2; d++) vs.insert((1ull << (7 * k)) + (uint64_t)d);
      for (uint64_t v : vs) {
        CHECK("v64", v, 0, check_v64(v));
        CHECK("v32", (uint32_t)v, 0, check_v32((uint32_t)v));
        CHECK("reuse", v, 0, check_reuse(v));
        for (int pad = 1; pad <= 8; pad++) CHECK("overlong", v, pad - 1, check_overlong(v, pad));
        if (v >= 128) n_multi++;
        for (int al = 0; al < 8; al++) {
          CHECK("fixed32", (uint32_t)v, al, check_fixed32((uint32_t)v, al));
          CHECK("fixed64", v, al, check_fixed64(v, al));
        }
      }
      for (uint64_t k = 0; k <= 40; k++) CHECK("packed", k, 0, check_packed(k));
    }
    stats.counters["boundary_values"] += n_eval;
  } else if (o.mode == "sample") {
    // pseudo-random values without repetition: worker w takes indexes i = w, w+W, ... through bijections
    long long n = o.geti("count", 1000000);
    for (long long i = 0; i < n; i++) {
      uint64_t idx = (uint64_t)i * (uint64_t)o.nworkers + (uint64_t)o.worker + (o.seed << 20);
      uint32_t v32 = mix32((uint32_t)idx);
      CHECK("v32", v32, 0, check_v32(v32));
      if (v32 >= 128) n_multi++;
      uint64_t v64 = mix64(idx);
      // spread over all bit lengths
      unsigned bits = (unsigned)(idx % 64) + 1;
      uint64_t w = bits == 64 ? v64 : ((v64 & ((1ull << bits) - 1)) | (1ull << (bits - 1)));
      CHECK("v64", w, 0, check_v64(w));
      unsigned b32 = (unsigned)((idx / 64) % 32) + 1;
      uint32_t w32 = b32 == 32 ? (uint32_t)v64 : (((uint32_t)v64 & ((1u << b32) - 1)) | (1u << (b32 - 1)));
      CHECK("v32", w32, 0, check_v32(w32));
      if ((i & 15) == 0) {
        CHECK("reuse", w, 0, check_reuse(w));
        CHECK("overlong", w, (int)(idx % 8), check_overlong(w, 1 + (int)(idx % 8)));
        int al = (int)(idx % 8);
        CHECK("fixed32", v32, al, check_fixed32(v32, al));
        CHECK("fixed64", v64, al, check_fixed64(v64, al));
      }
    }
  } else if (o.mode == "all32") {
    // the whole 32-bit space, split over the workers
    uint64_t lo = (1ull << 32) * (uint64_t)o.worker / (uint64_t)o.nworkers, hi = (1ull << 32) * (uint64_t)(o.worker + 1) / (uint64_t)o.nworkers;
    g_cur.what = "v32";
    for (uint64_t v = lo; v < hi; v++) {
      g_cur.v = v;
      if (!check_v32((uint32_t)v)) {
        Case c;
        c.what = "v32";
        c.v = v;
        return fail_out(o, c);
      }
    }
    n_eval += (long long)(hi - lo);
    n_multi += (long long)(hi - std::max<uint64_t>(lo, 128));
    stats.counters["exhaustive_32bit_values"] += (long long)(hi - lo);
  } else return 2;
  stats.evaluations += n_eval;
  stats.counters["bulk_distinct_nontrivial"] += n_multi;
  // samples for the evidence file
  Case s1;
  s1.what = "v32";
  s1.v = 300 + (uint64_t)o.worker;
  Result rr = run_case(s1);
  stats.add(s1.ser(), rr);
  stats.evaluations--;
  return 0;
}

int main(int argc, char **argv) {
  g_death_cb = death_case;
  return vf_main<Case>(argc, argv, "C16", gen_case, run_case, extra_modes);
}
