// C07 — fileset view follows the setfile; open iterators pin their snapshot
// fileset.c is compiled with -Dclock_gettime=verif_clock_gettime: the harness owns the monotonic clock.
#define VF_MAIN
#include "mergecommon.h"
#include "../harness/shims/shims.h"
using namespace vf;

static const int NTABLES = 6;      // names 0..5 are tables, 6 is a file that is not a table, 7 does not exist
static const int NNAMES = 8;
static const uint32_t NEVER = UINT32_MAX;

struct FOp {
  std::string k;  // rewrite | advance | reload | reloadnow | dup | open | next | close | destroy | read | rmfile | mkfile
  std::vector<long> a;
  IterSpec spec;
};
struct Case {
  std::vector<long> initial;  // names in the first setfile version
  long interval0 = 0;         // reload interval of the first handle (-1 = NEVER)
  std::vector<FOp> ops;
  bool valid() const {
    if (ops.size() > 200) return false;
    auto names_ok = [](const std::vector<long> &v, size_t from) {
      for (size_t i = from; i < v.size(); i++)
        if (v[i] < 0 || v[i] >= NNAMES) return false;
      return v.size() - from <= 12;  // a version may name the same file more than once (same or different spelling)
    };
    if (!names_ok(initial, 0)) return false;
    for (auto &o : ops) {
      for (long v : o.a)
        if (v < -1 || v > 1000000) return false;
      if (o.k == "rewrite" && (o.a.empty() || !names_ok(o.a, 1))) return false;
    }
    return true;
  }
  std::string ser() const {
    Out o;
    o << "property C07\ninit interval=" << interval0;
    for (long n : initial) o << " " << n;
    o << "\n";
    for (auto &p : ops) {
      o << "op " << p.k;
      for (long v : p.a) o << " " << v;
      if (p.k == "open") o << " " << p.spec.ser();
      o << "\n";
    }
    return o.str();
  }
  static Case parse(const std::string &t) {
    Case c;
    for (auto &row : Lines::parse(t).rows) {
      if (row[0] == "init") {
        for (size_t i = 1; i < row.size(); i++) {
          if (row[i].rfind("interval=", 0) == 0) c.interval0 = atol(row[i].c_str() + 9);
          else c.initial.push_back(atol(row[i].c_str()));
        }
      } else if (row[0] == "op" && row.size() >= 2) {
        FOp p;
        p.k = row[1];
        size_t i = 2;
        for (; i < row.size() && row[i].find('=') == std::string::npos; i++) p.a.push_back(atol(row[i].c_str()));
        if (p.k == "open") p.spec = IterSpec::parse(row, i);
        c.ops.push_back(p);
      }
    }
    return c;
  }
};

// Value comparison.  Every file contributes each of its values to the fold exactly once; a file that the setfile names
// m times may contribute once (an implementation that treats the names as a set) up to m times (one reader per line):
// the statement does not say which, so both are accepted.  Without repeated names this is exact multiset equality.
static bool tokens_within(const bytes &got, const bytes &want) {
  if (got.size() % 4 || want.size() % 4) return false;
  std::map<bytes, int> g, w;
  for (auto &t : tokens_of(got)) g[t]++;
  for (auto &t : tokens_of(want)) w[t]++;
  if (g.size() != w.size()) return false;
  for (auto &kv : g) {
    auto it = w.find(kv.first);
    if (it == w.end() || kv.second > it->second) return false;
  }
  return true;
}
// Tables 0 and 5 have a second table that can take their place under the same name while the name is not loaded
// (op "mkfile n 1"): the replacement of table 0 has two entries (the reader filter rejects it), that of table 5 has four.
static bool has_variant(int i) { return i == 0 || i == 5; }
static KVs table_content(int i, int variant = 0) {
  if (variant && has_variant(i)) {
    KVs kv;
    if (i == 0) kv = {{bytes("a"), token(i, 10)}, {bytes("q"), token(i, 11)}};
    else kv = {{bytes("m"), token(i, 10)}, {bytes("n"), token(i, 11)}, {bytes("o"), token(i, 12)}, {bytes("p"), token(i, 13)}};
    return kv;
  }
  static const char *keys[NTABLES][5] = {{"a", "b", "c", "d", nullptr}, {"c", "d", "e", "f", nullptr}, {"a", "f", "g", nullptr, nullptr},
                                         {nullptr, nullptr, nullptr, nullptr, nullptr}, {"", "b", "z", nullptr, nullptr}, {"m", "n", nullptr, nullptr, nullptr}};
  KVs kv;
  for (int j = 0; j < 5 && keys[i][j]; j++) kv.emplace_back(bytes(keys[i][j]), token(i, j));
  std::sort(kv.begin(), kv.end(), [](const KV &x, const KV &y) { return bcmp3(x.first, y.first) < 0; });
  return kv;
}
static std::string name_of(int n) {
  if (n < NTABLES) return "t" + std::to_string(n) + ".mtbl";
  return n == 6 ? "junk.mtbl" : "missing.mtbl";
}
// filename filters: 0 none, 1 even table numbers only, 2 reject everything containing "t1" or "t4"
static bool fn_filter1(const char *f, void *) {
  const char *p = strrchr(f, '/');
  p = p ? p + 1 : f;
  return p[0] == 't' && (p[1] - '0') % 2 == 0;
}
static bool fn_filter2(const char *f, void *) { return !strstr(f, "t1.") && !strstr(f, "t4."); }
// reader filter: tables with at least 3 entries
static bool rd_filter(struct mtbl_reader *r, void *) { return mtbl_metadata_count_entries(mtbl_reader_metadata(r)) >= 3; }
static bool passes(int table, int fnf, int rdf, int variant = 0) {
  if (fnf == 1 && table % 2) return false;
  if (fnf == 2 && (table == 1 || table == 4)) return false;
  if (rdf && table_content(table, variant).size() < 3) return false;
  return true;
}

static std::vector<long> gen_names() {
  std::vector<long> v;
  std::set<long> s;
  int n = pick(0, 5);
  for (int i = 0; i < n; i++) {
    long x = weighted({80, 10, 10}) == 0 ? pick(0, NTABLES - 1) : chance(50) ? 6 : 7;
    if (s.insert(x).second) v.push_back(x);
  }
  if (!v.empty() && chance(12)) {
    // the same file named again further down (depending on its position the line is spelled the same or differently)
    int extra = pick(1, 2);
    for (int i = 0; i < extra; i++) v.insert(v.begin() + pick(0, (int)v.size()), v[(size_t)pick(0, (int)v.size() - 1)]);
  }
  return v;
}
static Case gen_case() {
  Case c;
  c.initial = gen_names();
  c.interval0 = one_of<long>({0, 0, 2, 5, -1});
  if (chance(12)) {
    // Directed shape (the rest stays random): a dup'ed handle with filters reads, then lies idle while a table name
    // leaves the set and comes back through other handles' reloads, the file possibly replaced meanwhile; then it reads.
    long x = chance(50) ? 0 : 5;
    auto mk = [](const char *k, std::vector<long> a) {
      FOp p;
      p.k = k;
      p.a = a;
      return p;
    };
    auto with = [&](bool in) {
      std::vector<long> v = {pick(0, 1)};
      for (long y : gen_names())
        if (y != x) v.push_back(y);
      if (in) v.insert(v.begin() + pick(1, (int)v.size()), x);
      return v;
    };
    c.ops.push_back(mk("rewrite", with(true)));
    c.ops.push_back(mk("reloadnow", {0}));
    c.ops.push_back(mk("dup", {0, one_of<long>({0, 2, -1}), pick(0, 1) ? 0 : 1, chance(75), 0}));
    c.ops.push_back(mk("read", {1, chance(25)}));
    if (chance(70)) c.ops.push_back(mk("rmfile", {x}));
    c.ops.push_back(mk("rewrite", with(chance(20))));
    c.ops.push_back(mk(chance(70) ? "reloadnow" : "read", {0, 0}));
    if (chance(80)) c.ops.push_back(mk("mkfile", {x, chance(70)}));
    c.ops.push_back(mk("rewrite", with(true)));
    c.ops.push_back(mk(chance(70) ? "reloadnow" : "read", {0, 0}));
    c.ops.push_back(mk("read", {chance(80) ? 1 : 0, chance(25)}));
  }
  int n = pick(1, 6 + current_size() / 3);
  for (int i = 0; i < n; i++) {
    FOp p;
    switch (weighted({16, 10, 8, 12, 8, 14, 10, 8, 3, 11, 6})) {
      case 0: {
        p.k = "rewrite";
        p.a.push_back(pick(0, 1));
        for (long x : gen_names()) p.a.push_back(x);
        break;
      }
      case 1: p.k = "advance"; p.a = {one_of<long>({0, 1, 2, 3, 5, 6, 1000})}; break;
      case 2: p.k = "reload"; p.a = {pick(0, 3)}; break;
      case 3: p.k = "reloadnow"; p.a = {pick(0, 3)}; break;
      case 4: p.k = "dup"; p.a = {pick(0, 3), one_of<long>({0, 0, 2, 5, -1}), pick(0, 2), chance(25), /*absolute-path flag unused*/ 0}; break;
      case 5: {
        p.k = "open";
        p.a = {pick(0, 3), chance(25)};
        p.spec.kind = weighted({55, 15, 15, 15});
        static const char *ks[] = {"a", "c", "f", "", "m", "b", "zz"};
        p.spec.a = ks[pick(0, 6)];
        p.spec.b = ks[pick(0, 6)];
        if (p.spec.kind == 3 && bcmp3(p.spec.a, p.spec.b) > 0) std::swap(p.spec.a, p.spec.b);
        break;
      }
      case 6: p.k = "next"; p.a = {pick(0, 3), pick(1, 4)}; break;
      case 7: p.k = "close"; p.a = {pick(0, 3)}; break;
      case 8: p.k = "destroy"; p.a = {pick(0, 3)}; break;
      case 9: p.k = "read"; p.a = {pick(0, 3), chance(25)}; break;
      default:
        p.k = chance(55) ? "rmfile" : "mkfile";
        p.a = {chance(40) ? (chance(50) ? 0 : 5) : pick(0, NTABLES - 1)};
        if (p.k == "mkfile") p.a.push_back(chance(40));  // 1: a different table comes back under the name
        break;
    }
    c.ops.push_back(p);
  }
  return c;
}

// ---------------------------------------------------------------- interpreter + tolerant model
struct Handle {
  struct mtbl_fileset *fs = nullptr;
  long interval = 0;
  int fnf = 0, rdf = 0;
  int open_iters = 0;
  bool alive = false;
};
struct OpenIt {
  struct mtbl_merger *mg = nullptr;  // non-NULL: the iterator was opened through an application-level merger over the fileset source
  struct mtbl_iter *it = nullptr;
  int h = 0;
  IterSpec spec;
  size_t returned = 0;
  bool failed = false;
  bool alive = false;
};

static Result run_case(const Case &c) {
  return run_isolated([&](Result &r) {
    ensure_tmpdir();
    std::string dir = g_tmpdir + "/fs-" + std::to_string(getpid());
    mkdir(dir.c_str(), 0700);
    for (int i = 0; i < NTABLES; i++) {
      WConfig wc;
      wc.comp = i % 3;
      wc.by_path = true;
      std::string outp;
      int fd = write_table(wc, table_content(i), nullptr, &outp);
      close(fd);
      rename(outp.c_str(), (dir + "/" + name_of(i)).c_str());
    }
    for (int i = 0; i < NTABLES; i++)
      if (has_variant(i)) {
        WConfig wc;
        wc.comp = (i + 1) % 3;
        wc.by_path = true;
        std::string outp;
        int fd = write_table(wc, table_content(i, 1), nullptr, &outp);
        close(fd);
        rename(outp.c_str(), (dir + "/.v1-" + name_of(i)).c_str());
      }
    write_file(dir + "/" + name_of(6), std::string(800, 'J'));
    mkdir((dir + "-alt").c_str(), 0700);
    for (int i = 0; i <= 6; i++)
      if (symlink((dir + "/" + name_of(i)).c_str(), (dir + "-alt/" + name_of(i)).c_str())) {}
    std::string setfile = dir + "/set.fileset";
    // setfile versions
    std::vector<std::vector<long>> versions;
    long mtime = 1700000000;
    auto write_version = [&](const std::vector<long> &names, int mode) {
      std::string text;
      for (size_t i = 0; i < names.size(); i++) {
        int n = (int)names[i];
        // relative lines, absolute lines inside the setfile's directory, and absolute lines through another directory
        // (a sibling directory <dir>-alt holds symlinks to the tables, so these paths do not start with the setfile's
        // directory), in an order that varies with the version
        size_t form = (i + versions.size()) % 3;
        text += (form == 0 ? std::string() : form == 1 ? dir + "/" : dir + "-alt/") + name_of(n) + "\n";
      }
      if (mode == 1) {
        std::string tmp = setfile + ".new";
        write_file(tmp, text);
        rename(tmp.c_str(), setfile.c_str());
      } else write_file(setfile, text);
      mtime += 2;
      struct timespec ts[2] = {{mtime, 0}, {mtime, 0}};
      utimensat(AT_FDCWD, setfile.c_str(), ts, 0);
      versions.push_back(names);
      std::set<long> distinct(names.begin(), names.end());
      if (distinct.size() < names.size()) r.tag("setfile_names_a_file_twice");
    };
    write_version(c.initial, 0);
    vc_now.tv_sec = 1000;
    vc_now.tv_nsec = 0;
    MergeClos mc;
    mc.keep_log = false;
    std::vector<Handle> hs;
    std::vector<OpenIt> its;
    auto mk_opts = [&](long interval, int fnf, int rdf) {
      struct mtbl_fileset_options *fo = mtbl_fileset_options_init();
      mtbl_fileset_options_set_merge_func(fo, concat_merge, &mc);
      mtbl_fileset_options_set_reload_interval(fo, interval < 0 ? NEVER : (uint32_t)interval);
      if (fnf == 1) mtbl_fileset_options_set_filename_filter_func(fo, fn_filter1, nullptr);
      if (fnf == 2) mtbl_fileset_options_set_filename_filter_func(fo, fn_filter2, nullptr);
      if (rdf) mtbl_fileset_options_set_reader_filter_func(fo, rd_filter, nullptr);
      return fo;
    };
    {
      Handle h;
      struct mtbl_fileset_options *fo = mk_opts(c.interval0, 0, 0);
      h.fs = mtbl_fileset_init(setfile.c_str(), fo);
      mtbl_fileset_options_destroy(&fo);
      h.interval = c.interval0;
      h.alive = true;
      hs.push_back(h);
    }
    // ---- tolerant model of the shared fileset: a set of candidate states
    // A candidate is (vn, el): the setfile version the library has noticed and the world epoch at which that version was
    // loaded (the loaded set = names of version vn that existed as files at epoch el).  (-1,-1) = nothing loaded yet.
    // A reload at a reload point is effective only if the setfile changed since it was last noticed.  At a point where a
    // reload is REQUIRED every candidate takes the reload branch; where it is merely PERMITTED both branches are kept.
    // Observations filter the set; an empty set is the violation.  While any iterator is open nothing may reload.
    // A third component records, for the tables that have a replacement, which of the two was opened when the name was
    // loaded: a reload keeps the reader of a name that stays loaded (same spelling), so a name that was replaced behind
    // the library's back may show either table until a reload has seen it absent; both are kept as candidates.
    struct Cand {
      int first, second;
      unsigned vm;
      Cand(int a, int b, unsigned v = 0) : first(a), second(b), vm(v) {}
      bool operator<(const Cand &o) const { return std::tie(first, second, vm) < std::tie(o.first, o.second, o.vm); }
      bool operator!=(const Cand &o) const { return first != o.first || second != o.second || vm != o.vm; }
    };
    std::set<Cand> cands = {Cand(-1, -1)};
    bool deferred_now = false;  // reload_now was called while iterators were open
    long t_lastpoint = -1;      // second of the last op at which a reload could have happened (no iterators open)
    int total_open = 0;
    bool saw_change_reload_read_other = false, iter_across_reloadnow = false, files_changed = false, files_replaced = false;
    int last_reload_handle = -1;
    bool forced_reload_changed_something = false;
    // world epochs
    struct Snap {
      int version;
      unsigned exist;    // bit n: table file n exists
      unsigned variant;  // bit n: the file of that name is the replacement table
    };
    unsigned exist_now = (1u << NTABLES) - 1, variant_now = 0;
    std::vector<Snap> snaps = {Snap{0, exist_now, 0}};
    auto new_epoch = [&]() { snaps.push_back(Snap{(int)versions.size() - 1, exist_now, variant_now}); };
    auto loaded_in = [&](int vn, int el, int n) {
      if (vn < 0 || !((snaps[(size_t)el].exist >> n) & 1)) return false;
      for (long x : versions[(size_t)vn])
        if (x == n) return true;
      return false;
    };
    auto content = [&](const Cand &cd, const Handle &h) {
      std::map<bytes, bytes, BLess> m;
      if (cd.first >= 0)
        for (long n : versions[(size_t)cd.first])
          if (n < NTABLES && ((snaps[(size_t)cd.second].exist >> n) & 1) && passes((int)n, h.fnf, h.rdf, (int)((cd.vm >> n) & 1)))
            for (auto &kv : table_content((int)n, (int)((cd.vm >> n) & 1))) m[kv.first] += kv.second;
      RefTable t;
      for (auto &kv : m) t.e.push_back(kv);
      return t;
    };

    auto live = [&](long idx) -> int {
      std::vector<int> l;
      for (size_t i = 0; i < hs.size(); i++)
        if (hs[i].alive) l.push_back((int)i);
      return l[(size_t)idx % l.size()];
    };
    auto live_it = [&](long idx) -> int {
      std::vector<int> l;
      for (size_t i = 0; i < its.size(); i++)
        if (its[i].alive) l.push_back((int)i);
      if (l.empty()) return -1;
      return l[(size_t)idx % l.size()];
    };
    // called for every op that is a reload point for handle h (source op, explicit reload, iterator close)
    auto reload_point = [&](int h, bool now_forced) {
      if (total_open > 0) {
        if (now_forced) deferred_now = true;
        return;  // nothing may reload
      }
      bool must = now_forced || deferred_now || cands.count(Cand(-1, -1)) > 0;
      long I = hs[(size_t)h].interval;
      if (!must && I >= 0 && t_lastpoint >= 0 && vc_now.tv_sec - t_lastpoint > I) must = true;
      int curv = (int)versions.size() - 1, cure = (int)snaps.size() - 1;
      std::set<Cand> next;
      bool changed = false;
      for (auto &cd : cands) {
        if (cd.first == curv) {  // an effective reload only when the setfile changed
          next.insert(cd);
          continue;
        }
        changed = true;
        if (!must) next.insert(cd);
        // names loaded afresh open the file that is there now; names that stay loaded may keep the reader they have
        std::vector<unsigned> vms = {0};
        for (int n = 0; n < NTABLES; n++) {
          if (!has_variant(n) || !loaded_in(curv, cure, n)) continue;
          unsigned nowbit = (snaps[(size_t)cure].variant >> n) & 1, oldbit = (cd.vm >> n) & 1;
          bool either = loaded_in(cd.first, cd.second, n) && oldbit != nowbit;
          size_t sz = vms.size();
          for (size_t i = 0; i < sz; i++) {
            if (either) vms.push_back(vms[i] | (oldbit << n));
            vms[i] |= nowbit << n;
          }
        }
        for (unsigned vm : vms) next.insert(Cand(curv, cure, vm));
      }
      cands = next;
      if (must) {
        deferred_now = false;
        if (changed) {
          forced_reload_changed_something = true;
          last_reload_handle = h;
        }
      }
      t_lastpoint = vc_now.tv_sec;
    };
    auto describe = [&](const std::set<Cand> &cs) {
      std::string d;
      for (auto &cd : cs) d += "(version " + std::to_string(cd.first) + " loaded at epoch " + std::to_string(cd.second) + (cd.vm ? " replacements " + std::to_string(cd.vm) : "") + ") ";
      return d;
    };

    for (size_t oi = 0; oi < c.ops.size() && !r.fail; oi++) {
      const FOp &op = c.ops[oi];
      auto A = [&](size_t i, long d = 0) { return i < op.a.size() ? op.a[i] : d; };
      if (op.k == "rewrite") {
        std::vector<long> names(op.a.begin() + 1, op.a.end());
        write_version(names, (int)A(0));
        new_epoch();
      } else if (op.k == "rmfile" || op.k == "mkfile") {
        int n = (int)(A(0) % NTABLES);
        std::string p = dir + "/" + name_of(n);
        auto store = [&](unsigned v) { return dir + (v ? "/.v1-" : "/.hidden-") + name_of(n); };
        bool ex = (exist_now >> n) & 1;
        if (op.k == "rmfile" && ex) {
          rename(p.c_str(), store((variant_now >> n) & 1).c_str());  // the name disappears; a reader that has the table mapped keeps it
          exist_now &= ~(1u << n);
          new_epoch();
          files_changed = true;
        } else if (op.k == "mkfile" && !ex) {
          // the same table comes back under the same name, or (second argument 1) the other table of that name does
          if (A(1) % 2 == 1 && has_variant(n)) {
            variant_now ^= 1u << n;
            files_replaced = true;
          }
          rename(store((variant_now >> n) & 1).c_str(), p.c_str());
          exist_now |= 1u << n;
          new_epoch();
          files_changed = true;
        }
      } else if (op.k == "advance") {
        vc_now.tv_sec += A(0);
      } else if (op.k == "reload" || op.k == "reloadnow") {
        int h = live(A(0));
        bool now = op.k == "reloadnow";
        if (now && total_open > 0) iter_across_reloadnow = true;
        reload_point(h, now);
        if (now) mtbl_fileset_reload_now(hs[(size_t)h].fs);
        else mtbl_fileset_reload(hs[(size_t)h].fs);
      } else if (op.k == "dup") {
        int h = live(A(0));
        Handle n;
        n.interval = A(1);
        n.fnf = (int)A(2) % 3;
        n.rdf = (int)A(3) % 2;
        struct mtbl_fileset_options *fo = mk_opts(n.interval, n.fnf, n.rdf);
        n.fs = mtbl_fileset_dup(hs[(size_t)h].fs, fo);
        mtbl_fileset_options_destroy(&fo);
        n.alive = true;
        hs.push_back(n);
        r.tag("dup");
      } else if (op.k == "open" || op.k == "read") {
        int h = live(A(0));
        reload_point(h, false);
        IterSpec sp = op.k == "open" ? op.spec : IterSpec();
        // A(1) odd: the application puts the fileset source into a merger of its own and iterates that (a fileset is a
        // source like any other).  What comes out must be the same, and the fileset must see its iterators come and go.
        bool via = A(1) % 2 == 1;
        struct mtbl_merger *omg = nullptr;
        struct mtbl_iter *it = nullptr;
        if (via) {
          struct mtbl_merger_options *mo = mtbl_merger_options_init();
          mtbl_merger_options_set_merge_func(mo, concat_merge, &mc);
          omg = mtbl_merger_init(mo);
          mtbl_merger_options_destroy(&mo);
          mtbl_merger_add_source(omg, mtbl_fileset_source(hs[(size_t)h].fs));
          it = open_iter(mtbl_merger_source(omg), sp);
          r.tag("opened_through_an_outer_merger");
        } else it = open_iter(mtbl_fileset_source(hs[(size_t)h].fs), sp);
        if (!it && via) {
          // a merger may answer "nothing there" with a NULL iterator: an observation of the empty result, nothing stays open
          std::set<Cand> ok;
          for (auto &cd : cands)
            if (model_result(content(cd, hs[(size_t)h]), sp).empty()) ok.insert(cd);
          mtbl_merger_destroy(&omg);
          if (ok.empty()) {
            r.failf("op %zu: the outer merger over handle %d returned a NULL iterator although every permitted state holds matching entries (permitted: %s)", oi, h, describe(cands).c_str());
            break;
          }
          cands = ok;
          reload_point(h, false);
          continue;
        }
        if (!it) {
          r.failf("op %zu: fileset source returned a NULL iterator", oi);
          break;
        }
        total_open++;
        hs[(size_t)h].open_iters++;
        OpenIt o;
        o.it = it;
        o.mg = omg;
        o.h = h;
        o.spec = sp;
        o.alive = true;
        its.push_back(o);
        if (forced_reload_changed_something && last_reload_handle >= 0 && last_reload_handle != h) saw_change_reload_read_other = true;
        if (op.k == "read") {
          // complete observation: drain and compare with every candidate
          KVs got = drain(it);
          std::set<Cand> ok;
          std::string why;
          for (auto &cd : cands) {
            RefTable t = content(cd, hs[(size_t)h]);
            KVs want = model_result(t, sp);
            bool same = got.size() == want.size();
            for (size_t i = 0; same && i < got.size(); i++) same = got[i].first == want[i].first && tokens_within(got[i].second, want[i].second);
            if (same) ok.insert(cd);
            else if (why.empty()) why = diff_kvs(got, want);
          }
          if (ok.empty()) {
            r.failf("op %zu: a new iterator on handle %d returned %zu entries that match no state a correct fileset can be in (permitted: %s; latest setfile version %zu; e.g. %s)",
                    oi, h, got.size(), describe(cands).c_str(), versions.size() - 1, why.c_str());
            break;
          }
          cands = ok;
          // close again
          its.back().alive = false;
          total_open--;
          hs[(size_t)h].open_iters--;
          reload_point(h, false);  // closing an iterator is a reload point for its handle
          mtbl_iter_destroy(&its.back().it);
          if (its.back().mg) mtbl_merger_destroy(&its.back().mg);
        }
      } else if (op.k == "next") {
        int i = live_it(A(0));
        if (i < 0) continue;
        OpenIt &o = its[(size_t)i];
        for (long k = 0; k < A(1, 1) && !r.fail; k++) {
          const uint8_t *kk, *vv;
          size_t lk, lv;
          mtbl_res res = mtbl_iter_next(o.it, &kk, &lk, &vv, &lv);
          // must be consistent with at least one candidate (nothing reloads while the iterator is open)
          std::set<Cand> ok;
          for (auto &cd : cands) {
            RefTable t = content(cd, hs[(size_t)o.h]);
            KVs want = model_result(t, o.spec);
            bool end = o.failed || o.returned >= want.size();
            if (res != mtbl_res_success) {
              if (end) ok.insert(cd);
            } else if (!end && want[o.returned].first == bytes((const char *)kk, lk) && tokens_within(bytes((const char *)vv, lv), want[o.returned].second))
              ok.insert(cd);
          }
          if (ok.empty()) {
            r.failf("op %zu: iterator %d (opened on handle %d, %s) step %zu %s, which is inconsistent with the snapshot it was opened on", oi, i, o.h, o.spec.ser().c_str(),
                    o.returned, res == mtbl_res_success ? ("returned key " + show(bytes((const char *)kk, lk))).c_str() : "failed");
            break;
          }
          cands = ok;
          if (res == mtbl_res_success) o.returned++;
          else o.failed = true;
        }
      } else if (op.k == "close") {
        int i = live_it(A(0));
        if (i < 0) continue;
        OpenIt &o = its[(size_t)i];
        o.alive = false;
        total_open--;
        hs[(size_t)o.h].open_iters--;
        reload_point(o.h, false);
        mtbl_iter_destroy(&o.it);
        if (o.mg) mtbl_merger_destroy(&o.mg);
      } else if (op.k == "destroy") {
        int h = live(A(0));
        int alive = 0;
        for (auto &x : hs) alive += x.alive;
        if (alive <= 1 || hs[(size_t)h].open_iters > 0) continue;  // keep one handle; iterators are destroyed before their handle
        mtbl_fileset_destroy(&hs[(size_t)h].fs);
        hs[(size_t)h].alive = false;
        r.tag("handle_destroyed_midway");
      }
    }
    for (auto &o : its)
      if (o.alive) {
        mtbl_iter_destroy(&o.it);
        if (o.mg) mtbl_merger_destroy(&o.mg);
      }
    for (auto &h : hs)
      if (h.alive) mtbl_fileset_destroy(&h.fs);
    rm_rf(dir);
    rm_rf(dir + "-alt");
    r.nontrivial = saw_change_reload_read_other || iter_across_reloadnow;
    if (saw_change_reload_read_other) r.tag("change_then_reload_via_one_handle_then_read_via_another");
    if (iter_across_reloadnow) r.tag("iterator_open_across_reload_now");
    if (versions.size() > 1) r.tag("setfile_rewritten");
    if (files_changed) r.tag("table_file_removed_or_restored");
    if (files_replaced) r.tag("table_file_replaced_by_a_different_table_while_absent");
    r.counters["setfile_versions"] = (long long)versions.size();
  });
}

int main(int argc, char **argv) { return vf_main<Case>(argc, argv, "C07", gen_case, run_case); }
