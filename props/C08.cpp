// C08 — writer accepts only strictly increasing keys and never overwrites a file
#define VF_MAIN
#include "addhist.h"
#include <sys/mman.h>
#include <fcntl.h>
using namespace vf;

struct Case {
  AddHist h;
  // second part: pre-existing target. kind: 0 none, 1 empty file, 2 file with content, 3 valid table, 4 read-only file,
  // 5 directory, 6 symlink to an existing file
  int pre_kind = 0;
  int hugekey = 0;  // 1: the fixed scenario with a key of 2^31+1 bytes (thorough tier only, see run_hugekey)
  bool valid() const { return h.valid() && pre_kind >= 0 && pre_kind <= 6; }
  std::string ser() const {
    Out o;
    o << "property C08\n";
    if (hugekey) {
      o << "hugekey 1\n";
      return o.str();
    }
    o << "pre " << pre_kind << "\n";
    h.ser(o);
    return o.str();
  }
  static Case parse(const std::string &text) {
    Case c;
    for (auto &row : Lines::parse(text).rows) {
      if (row[0] == "hugekey" && row.size() > 1) c.hugekey = atoi(row[1].c_str()) ? 1 : 0;
      else if (row[0] == "pre" && row.size() > 1) c.pre_kind = atoi(row[1].c_str());
      else c.h.parse_row(row);
    }
    return c;
  }
};

static Case gen_case() {
  Case c;
  c.h = gen_add_history(current_size() * 2);
  c.pre_kind = chance(30) ? pick(1, 6) : 0;
  return c;
}

// Keys whose lengths differ by 2^31 and more: "strictly greater, a proper prefix sorting first" has no size limit, and a
// three-way comparison that narrows a size_t difference to int gets exactly these wrong.  The long key is a never-written
// anonymous mapping (all zero bytes, no memory of its own); the table goes to /dev/null.  The writer keeps copies of an
// accepted 2 GiB key, so this costs several GiB for a few seconds: thorough tier only, one child, raised limits.
static Result run_hugekey() {
  long saved = g_rss_limit_mb;
  g_rss_limit_mb = 24576;
  Result res = run_isolated([&](Result &r) {
    const size_t L = ((size_t)1 << 31) + 1;
    uint8_t *big = (uint8_t *)mmap(nullptr, L, PROT_READ, MAP_PRIVATE | MAP_ANONYMOUS | MAP_NORESERVE, -1, 0);
    if (big == MAP_FAILED) {
      r.tag("hugekey_mapping_unavailable");
      return;
    }
    int fd = open("/dev/null", O_WRONLY);
    struct mtbl_writer_options *wo = mtbl_writer_options_init();
    mtbl_writer_options_set_compression(wo, MTBL_COMPRESSION_NONE);
    struct mtbl_writer *w = mtbl_writer_init_fd(fd, wo);
    mtbl_writer_options_destroy(&wo);
    if (!w) {
      r.failf("mtbl_writer_init_fd(/dev/null) failed");
      return;
    }
    const uint8_t one[1] = {0};
    struct Step { const uint8_t *k; size_t len; bool want; const char *what; } steps[] = {
        {one, 1, true, "first key 00"},
        {big, L, true, "key of 2^31+1 zero bytes (a proper extension of the last key, 2^31 bytes longer)"},
        {big, 7, false, "key of 7 zero bytes (a proper prefix of the last key, more than 2^31 bytes shorter)"},
        {big, L, false, "the same 2^31+1-byte key again (equal to the last key)"},
        {big, L - 1, false, "key of 2^31 zero bytes (a proper prefix of the last key, one byte shorter)"},
    };
    for (auto &st : steps) {
      bool got = mtbl_writer_add(w, st.k, st.len, one, 0) == mtbl_res_success;
      if (got != st.want) {
        r.failf("mtbl_writer_add of the %s was %s, expected %s", st.what, got ? "accepted" : "refused", st.want ? "accepted" : "refused");
        break;
      }
    }
    mtbl_writer_destroy(&w);
    close(fd);
    munmap(big, L);
    r.nontrivial = true;
    r.tag("key_lengths_differ_by_2^31");
  }, 600);
  g_rss_limit_mb = saved;
  return res;
}

static Result run_case(const Case &c) {
  if (c.hugekey) return run_hugekey();
  return run_isolated([&](Result &r) {
    KVs calls = expand_entries(c.h.adds);
    std::vector<bool> want_acc;
    KVs content = c.h.accepted(calls, &want_acc);
    std::vector<bool> got_acc;
    int fd = write_table(c.h.cfg, calls, &got_acc);
    if (fd < 0) {
      r.failf("writer could not be created");
      return;
    }
    size_t refusals = 0;
    for (size_t i = 0; i < calls.size(); i++) {
      if (!want_acc[i]) refusals++;
      if (got_acc[i] != want_acc[i]) {
        bytes prev;
        bool have = false;
        for (size_t j = 0; j < i; j++)
          if (want_acc[j]) {
            prev = calls[j].first;
            have = true;
          }
        r.failf("mtbl_writer_add #%zu key %s %s, but the last accepted key is %s: it must be %s", i, show(calls[i].first).c_str(),
                got_acc[i] ? "was accepted" : "was refused", have ? show(prev).c_str() : "(none)", want_acc[i] ? "accepted" : "refused");
        break;
      }
    }
    bytes img = fd_contents(fd);
    ref::DFile df = ref::decode_file(img);
    if (!r.fail) {
      // finished file holds exactly the accepted entries: via the reader ...
      struct mtbl_reader *rd = open_reader_fd(fd);
      if (!rd) r.failf("reader rejects the written file");
      else {
        struct mtbl_iter *it = mtbl_source_iter(mtbl_reader_source(rd));
        KVs got = it ? drain(it) : KVs();
        if (it) mtbl_iter_destroy(&it);
        std::string d = diff_kvs(got, content);
        if (!d.empty()) r.failf("file content (reader) differs from the accepted entries: %s", d.c_str());
        mtbl_reader_destroy(&rd);
      }
      // ... and via the independent decoder
      if (!df.err.empty()) r.failf("independent decoder rejects the file: %s", df.err.c_str());
      else {
        std::string d = diff_kvs(df.all(), content);
        if (!d.empty()) r.failf("file content (independent decoder) differs from the accepted entries: %s", d.c_str());
      }
    }
    close(fd);
    bool refusal_at_cut = false;
    if (df.err.empty() && df.data.size() >= 2 && refusals) {
      // a refusal right after the add that opened a new block / right before one
      std::set<bytes, BLess> firsts;
      for (size_t i = 1; i < df.data.size(); i++) firsts.insert(df.data[i].entries.front().key);
      bytes lastacc;
      for (size_t i = 0; i < calls.size(); i++) {
        if (want_acc[i]) lastacc = calls[i].first;
        else if (firsts.count(lastacc)) refusal_at_cut = true;
      }
    }

    // exclusive create
    if (c.pre_kind) {
      ensure_tmpdir();
      std::string path = g_tmpdir + "/pre" + std::to_string(getpid());
      std::string target = path;
      bytes before;
      unlink(path.c_str());
      rmdir(path.c_str());
      switch (c.pre_kind) {
        case 1: write_file(path, ""); break;
        case 2: before = "some content that must survive\n"; write_file(path, before); break;
        case 3: before = img; write_file(path, before); break;
        case 4: before = "read-only"; write_file(path, before); chmod(path.c_str(), 0444); break;
        case 5: mkdir(path.c_str(), 0700); break;
        case 6:
          target = path + ".real";
          before = "behind a symlink";
          write_file(target, before);
          if (symlink(target.c_str(), path.c_str())) {}
          break;
      }
      struct stat s0, s1;
      lstat(path.c_str(), &s0);
      struct mtbl_writer *w = mtbl_writer_init(path.c_str(), nullptr);
      if (w != nullptr) {
        r.failf("mtbl_writer_init opened an existing path (kind %d)", c.pre_kind);
        mtbl_writer_destroy(&w);
      }
      lstat(path.c_str(), &s1);
      if (s0.st_ino != s1.st_ino || s0.st_size != s1.st_size || s0.st_mtim.tv_sec != s1.st_mtim.tv_sec || s0.st_mtim.tv_nsec != s1.st_mtim.tv_nsec)
        r.failf("mtbl_writer_init changed the pre-existing path (kind %d): inode/size/mtime differ", c.pre_kind);
      if (c.pre_kind != 5 && read_file(target) != before) r.failf("mtbl_writer_init changed the bytes of the pre-existing file (kind %d)", c.pre_kind);
      chmod(path.c_str(), 0644);
      unlink(path.c_str());
      rmdir(path.c_str());
      unlink((path + ".real").c_str());
      r.tag("preexisting_target");
    }
    size_t nblocks = df.err.empty() ? df.data.size() : 0;
    r.nontrivial = refusals >= 1 && nblocks >= 2;
    if (refusals) r.tag("has_refusal");
    if (nblocks >= 2) r.tag("multi_block");
    if (refusal_at_cut) r.tag("refusal_right_after_block_cut");
    if (c.h.cfg.pool > 0) r.tag("pooled");
  });
}

int main(int argc, char **argv) {
  g_history_enabled = true;  // process-history modes (harness/vf.h): prelude first / the case body twice in one process
  g_prelude_fn = table_prelude;
  return vf_main<Case>(argc, argv, "C08", gen_case, run_case, [](const WorkerOpts &o, Stats &stats) -> int {
    if (o.mode != "hugekey") return 2;
    if (o.worker != 0) return 0;
    Case c;
    c.hugekey = 1;
    Result r = run_case(c);
    stats.add(c.ser(), r);
    if (r.fail) {
      write_file(o.outdir + "/fail.case", c.ser());
      write_file(o.outdir + "/fail.msg", r.msg);
      return 1;
    }
    return 0;
  });
}
