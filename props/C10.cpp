// C10 — trailer statistics equal the truth about the file (metadata accessors + mtbl_info)
#define VF_MAIN
#include "addhist.h"
#include "../harness/tools.h"
using namespace vf;

struct Case {
  AddHist h;
  bool exec_tool = false;
  bool valid() const { return h.valid(); }
  std::string ser() const {
    Out o;
    o << "property C10\n";
    o << "tool exec=" << exec_tool << "\n";
    h.ser(o);
    return o.str();
  }
  static Case parse(const std::string &text) {
    Case c;
    for (auto &row : Lines::parse(text).rows) {
      if (row[0] == "tool" && row.size() > 1) c.exec_tool = row[1] == "exec=1";
      else c.h.parse_row(row);
    }
    return c;
  }
};

static Case gen_case() {
  Case c;
  int size = current_size();
  if (chance(40)) {
    c.h.cfg = gen_config(chance(50));
    int maxn = 4 + size * 3;
    if (c.h.cfg.level_set && (c.h.cfg.level > 12 || c.h.cfg.level < -50) && (c.h.cfg.comp == 5 || c.h.cfg.comp == 4)) maxn = std::min(maxn, 60);
    c.h.adds = gen_table(c.h.cfg.eff_block_size(), maxn);
  } else {
    c.h = gen_add_history(size * 2);
  }
  if (chance(2)) {
    // thousands of one-entry blocks through a wide pool: many blocks in flight at once, so statistics that are updated by
    // the workers (rather than by the single result handler) would lose updates now and then
    c.h = AddHist();
    gen_many_blocks_pooled(c.h.cfg, c.h.adds);
    c.exec_tool = false;
    return c;
  }
  if (chance(4)) {
    // the writer starts far into a sparse file: offsets beyond 2^31 and 2^32
    c.h.cfg.sparse_off = one_of<unsigned long long>({(1ull << 31) - 100, (1ull << 31) + 5, 3ull << 30, (1ull << 32) + 4096});
    c.h.cfg.prefix_len = 0;
    c.h.cfg.by_path = false;
  }
  c.exec_tool = chance(1);
  return c;
}

// parse "label: value" lines of mtbl_info (LC_ALL=C: no digit grouping)
static bool info_field(const std::string &out, const char *label, std::string &val) {
  size_t p = out.find(label);
  if (p == std::string::npos) return false;
  p += strlen(label);
  while (p < out.size() && (out[p] == ' ' || out[p] == ':')) p++;
  size_t e = out.find('\n', p);
  val = out.substr(p, e == std::string::npos ? std::string::npos : e - p);
  return true;
}

static Result run_case(const Case &c) {
  return run_isolated([&](Result &r) {
    setenv("LC_ALL", "C", 1);
    KVs calls = expand_entries(c.h.adds);
    KVs content = c.h.accepted(calls);
    int fd = write_table(c.h.cfg, calls);
    if (fd < 0) {
      r.failf("writer could not be created");
      return;
    }
    uint64_t base = c.h.cfg.sparse_off;
    bytes img = base ? fd_tail(fd, base) : fd_contents(fd);
    ref::DFile df = ref::decode_file(img, base);
    if (base) r.tag("sparse_offset_ge_2GiB");
    if (!df.err.empty()) {
      r.failf("independent decoder rejects the file: %s", df.err.c_str());
      return;
    }
    // the truth, measured on the file by the independent decoder
    uint64_t t_entries = 0, t_keys = 0, t_vals = 0, t_data = 0;
    for (auto &b : df.data) {
      t_data += b.total();
      for (auto &e : b.entries) {
        t_entries++;
        t_keys += e.key.size();
        t_vals += e.val.size();
      }
    }
    // cross-check the decoder against the model (so "truth" is not just another reading of the trailer)
    uint64_t m_keys = 0, m_vals = 0;
    for (auto &kv : content) {
      m_keys += kv.first.size();
      m_vals += kv.second.size();
    }
    if (t_entries != content.size() || t_keys != m_keys || t_vals != m_vals) {
      r.failf("file content (%llu entries, %llu key bytes, %llu value bytes) differs from the accepted adds (%zu, %llu, %llu)",
              (unsigned long long)t_entries, (unsigned long long)t_keys, (unsigned long long)t_vals, content.size(),
              (unsigned long long)m_keys, (unsigned long long)m_vals);
      return;
    }
    uint64_t t_index_off = base + (base ? 0 : c.h.cfg.prefix_bytes().size()) + t_data;
    struct {
      const char *name;
      uint64_t truth;
    } want[] = {
        {"count_entries", t_entries},       {"count_data_blocks", df.data.size()}, {"bytes_data_blocks", t_data},
        {"bytes_index_block", df.index.total()}, {"bytes_keys", t_keys},          {"bytes_values", t_vals},
        {"index_block_offset", t_index_off},   {"data_block_size", c.h.cfg.eff_block_size()},
        {"compression_algorithm", (uint64_t)c.h.cfg.eff_comp()}, {"file_version", 1 /* MTBL_FORMAT_V2 */},
    };
    if (base + img.size() != t_index_off + df.index.total() + 512) r.failf("file size inconsistent with decoded blocks");
    struct mtbl_reader *rd = open_reader_fd(fd);
    if (!rd) {
      r.failf("reader rejects the written file");
      return;
    }
    const struct mtbl_metadata *m = mtbl_reader_metadata(rd);
    uint64_t got[] = {mtbl_metadata_count_entries(m),       mtbl_metadata_count_data_blocks(m), mtbl_metadata_bytes_data_blocks(m),
                      mtbl_metadata_bytes_index_block(m),   mtbl_metadata_bytes_keys(m),        mtbl_metadata_bytes_values(m),
                      mtbl_metadata_index_block_offset(m),  mtbl_metadata_data_block_size(m),
                      mtbl_metadata_compression_algorithm(m), (uint64_t)mtbl_metadata_file_version(m)};
    for (size_t i = 0; i < sizeof want / sizeof want[0]; i++)
      if (got[i] != want[i].truth)
        r.failf("mtbl_metadata_%s() = %llu but the file's actual value is %llu", want[i].name, (unsigned long long)got[i],
                (unsigned long long)want[i].truth);
    mtbl_reader_destroy(&rd);
    // mtbl_info
    if (!r.fail) {
      std::string out, err;
      std::vector<std::string> args = {"mtbl_info", "/proc/self/fd/" + std::to_string(fd)};
      int rc = c.exec_tool ? exec_tool_capture("mtbl_info", args, out, fd, &err) : call_tool_capture(mtbl_info_main, args, out, &err);
      if (rc != 0) r.failf("mtbl_info exited %d: %s", rc, err.substr(0, 500).c_str());
      else {
        struct {
          const char *label;
          uint64_t truth;
        } iw[] = {{"file size:", base + img.size()},          {"index block offset:", t_index_off}, {"index bytes:", df.index.total()},
                  {"data block bytes", t_data},        {"data block size:", c.h.cfg.eff_block_size()},
                  {"data block count", df.data.size()}, {"entry count:", t_entries},         {"key bytes:", t_keys},
                  {"value bytes:", t_vals}};
        for (auto &w : iw) {
          std::string v;
          if (!info_field(out, w.label, v)) r.failf("mtbl_info output lacks '%s'", w.label);
          else if (strtoull(v.c_str(), nullptr, 10) != w.truth)
            r.failf("mtbl_info prints '%s %s' but the actual value is %llu", w.label, v.c_str(), (unsigned long long)w.truth);
        }
        std::string v;
        static const char *names[] = {"none", "snappy", "zlib", "lz4", "lz4hc", "zstd"};
        if (!info_field(out, "compression algorithm:", v) || v != names[c.h.cfg.eff_comp()])
          r.failf("mtbl_info prints compression algorithm '%s', expected '%s'", v.c_str(), names[c.h.cfg.eff_comp()]);
      }
    }
    close(fd);
    r.nontrivial = df.data.size() >= 2 || content.size() != calls.size() || c.h.cfg.prefix_len > 0 || c.h.cfg.pool >= 0 || content.empty();
    if (df.data.size() >= 2) r.tag("multi_block");
    if (content.size() != calls.size()) r.tag("has_refused_adds");
    if (c.h.cfg.prefix_len) r.tag("foreign_prefix");
    if (c.h.cfg.pool > 0) r.tag("pooled");
    if (content.empty()) r.tag("empty_table");
    if (c.exec_tool) r.tag("exec_info");
    if (c.h.cfg.block_size < 1024 && c.h.cfg.block_size_set && !c.h.cfg.null_opts) r.tag("clamped_block_size");
  });
}

int main(int argc, char **argv) {
  g_history_enabled = true;  // process-history modes (harness/vf.h): prelude first / the case body twice in one process
  g_prelude_fn = table_prelude;
  return vf_main<Case>(argc, argv, "C10", gen_case, run_case);
}
