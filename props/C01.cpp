// C01 — round trip: a written table reads back exactly what was added (reader + mtbl_dump -x)
#define VF_MAIN
#include "../harness/tbl.h"
#include "../harness/tools.h"
using namespace vf;

struct Case {
  WConfig cfg;
  std::vector<SEntry> entries;
  // mtbl_dump filters (empty / 0 = option not given)
  bytes dk, dv;
  int dK = 0, dV = 0;
  bool exec_tool = false;  // run the stand-alone mtbl_dump binary instead of the linked-in main
  bool text_mode = false;  // default (quoted) output instead of -x

  bool valid() const {
    if (!cfg.null_opts && cfg.restart < 1) return false;
    if (cfg.comp < 0 || cfg.comp > 5 || cfg.pool > 16 || cfg.prefix_len < 0) return false;
    KVs kv = expand_entries(entries);
    for (size_t i = 1; i < kv.size(); i++)
      if (bcmp3(kv[i - 1].first, kv[i].first) >= 0) return false;
    return true;
  }
  std::string ser() const {
    Out o;
    o << "property C01\n" << cfg.ser() << "\n";
    o << "dump k=" << (dk.empty() ? "-" : hex(dk)) << " v=" << (dv.empty() ? "-" : hex(dv)) << " K=" << dK << " V=" << dV
      << " exec=" << exec_tool << " text=" << text_mode << "\n";
    ser_entries(o, entries);
    return o.str();
  }
  static Case parse(const std::string &text) {
    Case c;
    Lines L = Lines::parse(text);
    for (auto &row : L.rows) {
      if (row[0] == "config") c.cfg = WConfig::parse(row);
      else if (row[0] == "entry") c.entries.push_back(parse_entry(row));
      else if (row[0] == "dump") {
        for (size_t i = 1; i < row.size(); i++) {
          std::string k = row[i].substr(0, row[i].find('=')), v = row[i].substr(row[i].find('=') + 1);
          if (k == "k" && v != "-") c.dk = unhex(v);
          if (k == "v" && v != "-") c.dv = unhex(v);
          if (k == "K") c.dK = atoi(v.c_str());
          if (k == "V") c.dV = atoi(v.c_str());
          if (k == "exec") c.exec_tool = atoi(v.c_str());
          if (k == "text") c.text_mode = atoi(v.c_str());
        }
      }
    }
    return c;
  }
};

static Case gen_case() {
  Case c;
  if (chance(1)) {
    gen_many_blocks_pooled(c.cfg, c.entries);
    return c;
  }
  c.cfg = gen_config();
  int size = current_size();
  int maxn = 4 + size * 3;
  if (c.cfg.level_set && (c.cfg.level > 12 || c.cfg.level < -50) && (c.cfg.comp == 5 || c.cfg.comp == 4)) maxn = std::min(maxn, 60);
  c.entries = gen_table(c.cfg.eff_block_size(), maxn);
  // dump filters derived from the content so that they match something reasonably often
  if (chance(40) && !c.entries.empty()) {
    KVs kv = expand_entries(c.entries);
    auto &e = kv[(size_t)pick(0, (int)kv.size() - 1)];
    if (chance(50) && !e.first.empty()) c.dk = e.first.substr(0, (size_t)pick(1, (int)std::min<size_t>(e.first.size(), 8)));
    if (chance(30) && !e.second.empty()) c.dv = e.second.substr(0, (size_t)pick(1, (int)std::min<size_t>(e.second.size(), 4)));
    if (chance(30)) c.dK = one_of<int>({1, 2, 3, 8, 128, 129});
    if (chance(30)) c.dV = one_of<int>({1, 2, 100, 128, 401});
  }
  if (chance(4)) {
    // the writer starts far into a sparse file: offsets beyond 2^31 and 2^32
    c.cfg.sparse_off = one_of<unsigned long long>({(1ull << 31) - 100, (1ull << 31) + 5, 3ull << 30, (1ull << 32) + 4096});
    c.cfg.prefix_len = 0;
    c.cfg.by_path = false;
  }
  c.exec_tool = chance(1);
  c.text_mode = chance(25);
  return c;
}

static bool parse_dump_x(const std::string &out, KVs &res, std::string &err) {
  // each line: %08x:<hex pairs separated by '-'> SP %08x:<...>\n
  size_t pos = 0;
  auto parse_one = [&](bytes &b) -> bool {
    if (pos + 9 > out.size()) return false;
    unsigned len = 0;
    if (sscanf(out.c_str() + pos, "%8x", &len) != 1 || out[pos + 8] != ':') return false;
    pos += 9;
    b.clear();
    for (unsigned i = 0; i < len; i++) {
      if (pos + 2 > out.size()) return false;
      int h = hexval(out[pos]), l = hexval(out[pos + 1]);
      if (h < 0 || l < 0) return false;
      b.push_back((char)(h * 16 + l));
      pos += 2;
      if (i + 1 < len) {
        if (pos >= out.size() || out[pos] != '-') return false;
        pos++;
      }
    }
    return true;
  };
  while (pos < out.size()) {
    KV kv;
    if (!parse_one(kv.first)) {
      err = "cannot parse key at offset " + std::to_string(pos);
      return false;
    }
    if (pos >= out.size() || out[pos] != ' ') {
      err = "missing separator at offset " + std::to_string(pos);
      return false;
    }
    pos++;
    if (!parse_one(kv.second)) {
      err = "cannot parse value at offset " + std::to_string(pos);
      return false;
    }
    if (pos >= out.size() || out[pos] != '\n') {
      err = "missing newline at offset " + std::to_string(pos);
      return false;
    }
    pos++;
    res.push_back(kv);
  }
  return true;
}

// default output format (man mtbl_dump): "key" "value" per line, double quotes and unprintable bytes escaped
// in Python string literal syntax (\" and \xNN).  A literal backslash is printed raw, so lines are only decoded
// when the original entry holds no backslash; the line count is checked always.
static bool parse_dump_text(const std::string &out, KVs &res, std::string &err) {
  size_t pos = 0;
  auto parse_q = [&](bytes &b) -> bool {
    if (pos >= out.size() || out[pos] != '"') return false;
    pos++;
    b.clear();
    while (pos < out.size() && out[pos] != '"') {
      if (out[pos] == '\n') return false;
      if (out[pos] == '\\' && pos + 1 < out.size() && out[pos + 1] == '"') {
        b.push_back('"');
        pos += 2;
      } else if (out[pos] == '\\' && pos + 3 < out.size() && out[pos + 1] == 'x' && hexval(out[pos + 2]) >= 0 && hexval(out[pos + 3]) >= 0) {
        b.push_back((char)(hexval(out[pos + 2]) * 16 + hexval(out[pos + 3])));
        pos += 4;
      } else b.push_back(out[pos++]);
    }
    if (pos >= out.size()) return false;
    pos++;
    return true;
  };
  while (pos < out.size()) {
    KV kv;
    if (!parse_q(kv.first) || pos >= out.size() || out[pos] != ' ') {
      err = "malformed line near offset " + std::to_string(pos);
      return false;
    }
    pos++;
    if (!parse_q(kv.second) || pos >= out.size() || out[pos] != '\n') {
      err = "malformed line near offset " + std::to_string(pos);
      return false;
    }
    pos++;
    res.push_back(kv);
  }
  return true;
}

static void body(const Case &c, Result &r) {
  KVs want = expand_entries(c.entries);
  // classification
  bool big_len = false, empty_kv = false, hi_byte = false, over_block = false, huge = false;
  for (auto &kv : want) {
    if (kv.first.size() >= 128 || kv.second.size() >= 128) big_len = true;
    if (kv.first.size() >= 16384 || kv.second.size() >= 16384) huge = true;
    if (kv.first.empty() || kv.second.empty()) empty_kv = true;
    if (kv.first.size() + kv.second.size() > c.cfg.eff_block_size()) over_block = true;
    for (unsigned char ch : kv.first)
      if (ch >= 0x80) hi_byte = true;
  }
  std::vector<bool> acc;
  std::string path;
  int fd = write_table(c.cfg, want, &acc, c.cfg.by_path ? &path : nullptr);
  if (fd < 0) {
    r.failf("writer could not be created / output not reopened");
    return;
  }
  for (size_t i = 0; i < acc.size(); i++)
    if (!acc[i]) {
      r.failf("mtbl_writer_add refused strictly increasing key #%zu %s", i, show(want[i].first).c_str());
      return;
    }
  bytes pre = c.cfg.sparse_off ? bytes() : c.cfg.prefix_bytes();
  if (c.cfg.sparse_off) r.tag("sparse_offset_ge_2GiB");
  if (!pre.empty()) {
    bytes img = fd_contents(fd);
    if (img.size() < pre.size() || img.compare(0, pre.size(), pre) != 0) {
      r.failf("foreign prefix bytes (%zu) were modified by the writer", pre.size());
      return;
    }
  }
  struct mtbl_reader *rd = open_reader_fd(fd, /*verify*/ c.cfg.restart % 2 == 0, c.cfg.madvise);
  if (!rd) {
    r.failf("mtbl_reader_init_fd failed on a file the writer just produced");
    return;
  }
  const struct mtbl_metadata *md = mtbl_reader_metadata(rd);
  uint64_t nblocks = mtbl_metadata_count_data_blocks(md);
  struct mtbl_iter *it = mtbl_source_iter(mtbl_reader_source(rd));
  KVs got;
  if (it) {
    got = drain(it);
    // failure must be sticky at the end
    const uint8_t *k, *v;
    size_t lk, lv;
    if (mtbl_iter_next(it, &k, &lk, &v, &lv) == mtbl_res_success) r.failf("mtbl_iter_next succeeded after reporting the end");
    mtbl_iter_destroy(&it);
  }
  std::string d = diff_kvs(got, want);
  if (!d.empty()) r.failf("reader iteration differs from what was added: %s", d.c_str());
  mtbl_reader_destroy(&rd);

  // mtbl_dump -x
  if (!r.fail) {
    std::string fpath = c.cfg.by_path && !path.empty() ? path : "/proc/self/fd/" + std::to_string(fd);
    std::vector<std::string> args = {"mtbl_dump"};
    if (!c.text_mode) args.push_back("-x");
    if (!c.dk.empty()) {
      args.push_back("-k");
      args.push_back(hex(c.dk));
    }
    if (!c.dv.empty()) {
      args.push_back("-v");
      args.push_back(hex(c.dv));
    }
    if (c.dK > 0) {
      args.push_back("-K");
      args.push_back(std::to_string(c.dK));
    }
    if (c.dV > 0) {
      args.push_back("-V");
      args.push_back(std::to_string(c.dV));
    }
    args.push_back(fpath);
    std::string out, terr;
    int rcode = c.exec_tool ? exec_tool_capture("mtbl_dump", args, out, fd, &terr) : call_tool_capture(mtbl_dump_main, args, out, &terr);
    if (rcode != 0) r.failf("mtbl_dump exited with %d; stderr: %s", rcode, terr.substr(0, 800).c_str());
    else {
      KVs dumped;
      std::string perr;
      bool any_backslash = false;
      for (auto &kv : want)
        if (kv.first.find('\\') != bytes::npos || kv.second.find('\\') != bytes::npos) any_backslash = true;
      bool count_only = c.text_mode && any_backslash;  // a raw backslash makes the quoted form ambiguous: compare the line count only
      bool parsed = count_only ? true : c.text_mode ? parse_dump_text(out, dumped, perr) : parse_dump_x(out, dumped, perr);
      if (!parsed) r.failf("mtbl_dump %soutput malformed: %s", c.text_mode ? "" : "-x ", perr.c_str());
      else {
        KVs filtered;
        for (auto &kv : want) {
          if (!c.dk.empty() && !has_prefix(kv.first, c.dk)) continue;
          if (!c.dv.empty() && !has_prefix(kv.second, c.dv)) continue;
          if ((int)kv.first.size() < c.dK || (int)kv.second.size() < c.dV) continue;
          filtered.push_back(kv);
        }
        if (count_only) {
          size_t lines = (size_t)std::count(out.begin(), out.end(), '\n');
          if (lines != filtered.size()) r.failf("mtbl_dump printed %zu lines for %zu matching entries", lines, filtered.size());
          dumped = filtered;
          r.tag("dump_text_mode_count_only");
        } else if (c.text_mode) r.tag("dump_text_mode");
        std::string dd = diff_kvs(dumped, filtered);
        if (!dd.empty()) r.failf("mtbl_dump -x%s output differs from the expected subsequence: %s",
                                 (c.dk.empty() && c.dv.empty() && !c.dK && !c.dV) ? "" : " (filtered)", dd.c_str());
        if (!c.dk.empty() || !c.dv.empty() || c.dK || c.dV) {
          r.tag("dump_filtered");
          if (!filtered.empty() && filtered.size() < want.size()) r.tag("dump_filter_selective");
        }
      }
    }
  }
  if (!path.empty()) unlink(path.c_str());
  close(fd);

  r.nontrivial = nblocks >= 2 || big_len || empty_kv || hi_byte || c.cfg.nondefault();
  if (nblocks >= 2) r.tag("multi_block");
  if (nblocks >= 20) r.tag("blocks_ge20");
  if (big_len) r.tag("len_ge128");
  if (huge) r.tag("len_ge16k");
  if (empty_kv) r.tag("empty_key_or_value");
  if (hi_byte) r.tag("byte_ge80");
  if (over_block) r.tag("entry_gt_block");
  if (c.cfg.pool >= 0) r.tag("pooled");
  if (c.cfg.prefix_len) r.tag("foreign_prefix");
  if (c.cfg.level_set) r.tag("explicit_level");
  if (c.cfg.by_path) r.tag("by_path");
  if (c.exec_tool) r.tag("exec_dump");
  r.tag(std::string("comp_") + std::to_string(c.cfg.eff_comp()));
  if (want.empty()) r.tag("empty_table");
}

static Result run_case(const Case &c) {
  return run_isolated([&](Result &r) { body(c, r); });
}

int main(int argc, char **argv) {
  g_history_enabled = true;  // process-history modes (harness/vf.h): prelude first / the case body twice in one process
  g_prelude_fn = table_prelude;
  return vf_main<Case>(argc, argv, "C01", gen_case, run_case);
}
