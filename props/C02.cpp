// C02 — exact-match, prefix and range lookups return exactly the matching entries
#define VF_MAIN
#include "readcommon.h"
#include "../harness/refcodec.h"
using namespace vf;

struct Case {
  WConfig cfg;
  std::vector<SEntry> entries;
  std::vector<bytes> extra;  // literal extra query strings
  uint32_t qseed = 1;
  bool valid() const {
    if (!cfg.null_opts && cfg.restart < 1) return false;
    if (cfg.comp < 0 || cfg.comp > 5 || cfg.pool > 16 || cfg.prefix_len < 0) return false;
    KVs kv = expand_entries(entries);
    for (size_t i = 1; i < kv.size(); i++)
      if (bcmp3(kv[i - 1].first, kv[i].first) >= 0) return false;
    return true;
  }
  std::string ser() const {
    Out o;
    o << "property C02\n" << cfg.ser() << "\nqseed " << qseed << "\n";
    for (auto &e : extra) o << "query " << (e.empty() ? "-" : hex(e)) << "\n";
    ser_entries(o, entries);
    return o.str();
  }
  static Case parse(const std::string &text) {
    Case c;
    for (auto &row : Lines::parse(text).rows) {
      if (row[0] == "config") c.cfg = WConfig::parse(row);
      else if (row[0] == "entry") c.entries.push_back(parse_entry(row));
      else if (row[0] == "qseed" && row.size() > 1) c.qseed = (uint32_t)toull(row[1]);
      else if (row[0] == "query" && row.size() > 1) c.extra.push_back(row[1] == "-" ? bytes() : unhex(row[1]));
    }
    return c;
  }
};

static Case gen_case() {
  Case c;
  c.cfg = gen_config(/*many_blocks*/ chance(85), /*allow_pool*/ true);
  c.cfg.by_path = false;
  KeyUniverse u = gen_universe();
  c.entries = gen_table(c.cfg.eff_block_size(), 4 + current_size() * 2, /*allow_huge*/ chance(10), &u);
  if (chance(3)) gen_big_values_in_big_blocks(c.cfg, c.entries);
  int nx = pick(0, 6);
  for (int i = 0; i < nx; i++) c.extra.push_back(chance(50) ? gen_small(u) : gen_key_bytes(u, false));
  c.qseed = (uint32_t)pick(1, 1 << 30);
  return c;
}

static Result run_case(const Case &c) {
  return run_isolated([&](Result &r) {
    RefTable m;
    m.e = expand_entries(c.entries);
    int fd = write_table(c.cfg, m.e);
    if (fd < 0) {
      r.failf("writer failed");
      return;
    }
    bytes img = fd_contents(fd);
    ref::DFile df = ref::decode_file(img);
    std::vector<bytes> seps, lasts, firsts;
    if (df.err.empty())
      for (size_t i = 0; i < df.data.size(); i++) {
        seps.push_back(df.index.entries[i].key);
        lasts.push_back(df.data[i].entries.back().key);
        firsts.push_back(df.data[i].entries.front().key);
      }
    struct mtbl_reader *rd = open_reader_fd(fd, false, c.cfg.madvise);
    if (!rd) {
      r.failf("reader rejects a file the writer just produced");
      return;
    }
    std::vector<bytes> qs = derived_queries(m, seps, c.extra, c.qseed);
    QueryStats qst;
    std::string e = run_queries(mtbl_reader_source(rd), m, qs, c.qseed, qst, ValueCmp(), &seps, &lasts, &firsts);
    if (!e.empty()) r.failf("%s", e.c_str());
    mtbl_reader_destroy(&rd);
    close(fd);
    r.counters["queries_get"] = qst.gets;
    r.counters["queries_prefix"] = qst.prefixes;
    r.counters["queries_range"] = qst.ranges;
    r.counters["queries_in_index_gap"] = qst.gap_queries;
    r.counters["entries_matched"] = qst.hits;
    r.nontrivial = seps.size() >= 2 && (qst.nonfirst_block > 0 || qst.gap_queries > 0);
    if (seps.size() >= 2) r.tag("multi_block");
    if (seps.size() >= 17) r.tag("index_multi_restart_run");
    if (qst.gap_queries) r.tag("query_between_last_and_separator_or_separator_and_first");
    if (qst.inverted_ranges) r.tag("inverted_range");
    if (m.e.empty()) r.tag("empty_table");
    if (!m.e.empty() && m.e[0].first.empty()) r.tag("empty_key_stored");
  });
}

int main(int argc, char **argv) {
  g_history_enabled = true;  // process-history modes (harness/vf.h): prelude first / the case body twice in one process
  g_prelude_fn = table_prelude;
  return vf_main<Case>(argc, argv, "C02", gen_case, run_case);
}
