// C20 — writer output does not depend on how write(2) fragments the I/O; hard errors stop the process
// writer.c is compiled with -Dwrite=verif_write; the shim follows a fault plan indexed by call ordinal.
#define VF_MAIN
#include "../harness/tbl.h"
#include "../harness/shims/shims.h"
using namespace vf;

struct Fault {
  long call = 0;
  int kind = VW_SHORT;
  long arg = 1;
};
struct Case {
  WConfig cfg;
  std::vector<SEntry> entries;
  std::vector<Fault> plan;
  bool valid() const {
    if (!cfg.null_opts && cfg.restart < 1) return false;
    if (cfg.comp < 0 || cfg.comp > 5 || cfg.pool > 16 || cfg.prefix_len < 0 || plan.size() > VW_MAX_FAULTS) return false;
    std::set<long> ords;
    for (auto &f : plan) {
      if (f.kind < VW_SHORT || f.kind > VW_STORM || f.call < 0 || f.arg < 0) return false;
      if (f.kind == VW_DRIBBLE && (f.arg / 1000 > 5000 || f.arg % 1000 < 1)) return false;
      if (f.kind == VW_STORM && f.arg > 5000) return false;
      if (f.kind == VW_DRIBBLE || f.kind == VW_STORM) continue;  // ranges; single-call outcomes inside them take precedence
      if (!ords.insert(f.call).second) return false;  // one outcome per write call
    }
    KVs kv = expand_entries(entries);
    for (size_t i = 1; i < kv.size(); i++)
      if (bcmp3(kv[i - 1].first, kv[i].first) >= 0) return false;
    return true;
  }
  bool has_hard() const {
    for (auto &f : plan)
      if (f.kind == VW_ERROR || f.kind == VW_ZERO) return true;
    return false;
  }
  std::string ser() const {
    Out o;
    o << "property C20\n" << cfg.ser() << "\n";
    for (auto &f : plan) o << "fault " << f.call << " " << f.kind << " " << f.arg << "\n";
    ser_entries(o, entries);
    return o.str();
  }
  static Case parse(const std::string &t) {
    Case c;
    for (auto &row : Lines::parse(t).rows) {
      if (row[0] == "config") c.cfg = WConfig::parse(row);
      else if (row[0] == "entry") c.entries.push_back(parse_entry(row));
      else if (row[0] == "fault" && row.size() >= 4) {
        Fault f;
        f.call = atol(row[1].c_str());
        f.kind = atoi(row[2].c_str());
        f.arg = atol(row[3].c_str());
        c.plan.push_back(f);
      }
    }
    return c;
  }
};

static void install(const std::vector<Fault> &plan) {
  vw_reset();
  for (auto &f : plan) {
    if (vw_nplan >= VW_MAX_FAULTS) break;
    vw_plan[vw_nplan].call = f.call;
    vw_plan[vw_nplan].kind = f.kind;
    vw_plan[vw_nplan].arg = f.arg;
    vw_nplan++;
  }
}

// fault-free profile of a table: bytes and the sizes of its write() calls
struct Profile {
  bytes img;
  std::vector<long> sizes;
};
static Profile profile_of(const Case &c, const KVs &kv) {
  Profile p;
  vw_reset();
  int fd = write_table(c.cfg, kv);
  p.img = fd_contents(fd);
  close(fd);
  for (long i = 0; i < vw_calls && i < 65536; i++) p.sizes.push_back(vw_sizes[i]);
  return p;
}

// soft faults: same bytes expected.  Returns "" or message.
static std::string run_soft(const Case &c, const KVs &kv, const Profile &p, const std::vector<Fault> &plan, long *faults_hit = nullptr) {
  install(plan);
  int fd = write_table(c.cfg, kv);
  bytes got = fd_contents(fd);
  close(fd);
  long calls = vw_calls;
  vw_reset();
  if (faults_hit) {
    *faults_hit = 0;
    for (auto &f : plan)
      if (f.call < calls) (*faults_hit)++;
  }
  if (got != p.img) {
    size_t i = 0;
    while (i < got.size() && i < p.img.size() && got[i] == p.img[i]) i++;
    char b[300];
    snprintf(b, sizeof b, "output differs from the fault-free file: %zu bytes vs %zu, first difference at offset %zu", got.size(), p.img.size(), i);
    return b;
  }
  return "";
}

static Result run_case(const Case &c) {
  KVs kv = expand_entries(c.entries);
  if (!c.has_hard()) {
    return run_isolated([&](Result &r) {
      Profile p = profile_of(c, kv);
      long hit = 0;
      std::string e = run_soft(c, kv, p, c.plan, &hit);
      if (!e.empty()) r.failf("%s", e.c_str());
      r.nontrivial = hit > 0;
      if (hit > 0) r.tag("fault_reached");
      if (hit > 1) r.tag("multi_fault");
      for (auto &f : c.plan) r.tag(f.kind == VW_SHORT ? "short_write" : f.kind == VW_DRIBBLE ? "dribble_of_many_short_writes" : f.kind == VW_STORM ? "eintr_storm" : "eintr");
      if (c.cfg.pool > 0) r.tag("pooled");
      r.counters["write_calls_fault_free"] = (long long)p.sizes.size();
    });
  }
  // hard error: the process must stop abnormally while the API call in progress has not returned
  Result r;
  ChildRun cr = run_child([&](int fd) {
    Profile p = profile_of(c, kv);
    char line[64];
    int n = snprintf(line, sizeof line, "calls %zu\n", p.sizes.size());
    write_all_fd(fd, std::string(line, (size_t)n));
    install(c.plan);
    int ofd = new_memfd("vf-hard");
    PoolHolder ph(c.cfg.null_opts ? -1 : c.cfg.pool);
    struct mtbl_writer_options *wo = make_wopts(c.cfg, ph.p);
    bytes pre = c.cfg.prefix_bytes();
    if (!pre.empty()) {
      // the prefix is written by the harness itself, not through the shimmed writer
      if (::pwrite(ofd, pre.data(), pre.size(), 0) < 0) {}
      lseek(ofd, (off_t)pre.size(), SEEK_SET);
    }
    struct mtbl_writer *w = mtbl_writer_init_fd(ofd, wo);
    if (wo) mtbl_writer_options_destroy(&wo);
    for (size_t i = 0; i < kv.size(); i++) {
      n = snprintf(line, sizeof line, "enter add %zu\n", i);
      write_all_fd(fd, std::string(line, (size_t)n));
      if (mtbl_writer_add(w, U(kv[i].first), kv[i].first.size(), U(kv[i].second), kv[i].second.size()) != mtbl_res_success) {}
      n = snprintf(line, sizeof line, "leave add %zu calls=%ld\n", i, vw_calls);
      write_all_fd(fd, std::string(line, (size_t)n));
    }
    write_all_fd(fd, "enter destroy\n");
    mtbl_writer_destroy(&w);
    n = snprintf(line, sizeof line, "leave destroy calls=%ld\n", vw_calls);
    write_all_fd(fd, std::string(line, (size_t)n));
  });
  long ncalls = -1;
  {
    size_t p = cr.payload.find("calls ");
    if (p != std::string::npos) ncalls = atol(cr.payload.c_str() + p + 6);
  }
  long first_hard = LONG_MAX;
  for (auto &f : c.plan)
    if ((f.kind == VW_ERROR || f.kind == VW_ZERO) && f.call < first_hard) first_hard = f.call;
  // the fault-free call count shifts with earlier soft faults; a hard fault at an ordinal beyond the
  // calls actually made is never reached, and then normal completion is correct
  bool completed = cr.payload.find("leave destroy") != std::string::npos;
  long calls_made = -1;
  {
    size_t p = cr.payload.rfind("calls=");
    if (p != std::string::npos) calls_made = atol(cr.payload.c_str() + p + 6);
  }
  bool reached = !(completed && calls_made >= 0 && calls_made <= first_hard);
  if (cr.timed_out) r.failf("TIMEOUT waiting for the writer after an injected hard write error; %s", cr.describe().c_str());
  else if (completed && reached) r.failf("hard write error (call #%ld) was injected but every API call returned normally: the error was swallowed", first_hard);
  else if (!completed) {
    if (cr.clean()) r.failf("process exited with status 0 after an injected hard write error");
    else if (cr.sanitizer()) r.failf("sanitizer report after an injected hard write error: %s", cr.describe().c_str());
    else if (cr.err.empty()) r.failf("process stopped after a hard write error but printed nothing on stderr (%s)", cr.describe().c_str());
    // which call was in progress: the last "enter" must not be followed by its "leave" (by construction of the log)
  }
  r.nontrivial = reached && !completed;
  if (reached) r.tag("hard_error_reached");
  r.tag("hard_error_plan");
  if (c.cfg.pool > 0) r.tag("pooled");
  (void)ncalls;
  return r;
}

static Case gen_case() {
  Case c;
  c.cfg = gen_config(true, true);
  c.cfg.by_path = false;
  c.cfg.null_opts = false;
  c.entries = gen_table(c.cfg.eff_block_size(), 3 + current_size() / 3, false);
  if (!c.entries.empty() && chance(15)) {
    // one value of 64 KiB and more, incompressible: that block's payload is larger than any staging buffer a writer might keep
    SEntry &e = c.entries[(size_t)pick(0, (int)c.entries.size() - 1)];
    e.v = BStr();
    e.v.glen = (uint32_t)one_of<int>({65536, 70000, 100000, 200000});
    e.v.gkind = 0;
    e.v.gseed = pick_u32();
  }
  int nf = weighted({35, 30, 20, 15}) + 1;
  long approx_calls = 4 + 3 * (long)(c.entries.size() / 3 + 1);
  bool hard = chance(20);
  for (int i = 0; i < nf; i++) {
    Fault f;
    f.call = pick(0, (int)approx_calls + 3);
    int k = weighted({60, 40});
    f.kind = k == 0 ? VW_SHORT : VW_EINTR;
    f.arg = k == 0 ? one_of<long>({1, 1, 2, 3, 7, 100, 511, 1000000}) : 0;
    c.plan.push_back(f);
  }
  {
    std::set<long> seen;
    std::vector<Fault> uniq;
    for (auto &f : c.plan)
      if (seen.insert(f.call).second) uniq.push_back(f);
    c.plan = uniq;
  }
  if (chance(12)) {
    // "partial of any length >= 1", many times in a row: a run of calls that each accept 1-3 bytes (a 512-byte trailer then
    // takes hundreds of writes)
    Fault f;
    f.call = pick(0, (int)approx_calls);
    f.kind = VW_DRIBBLE;
    f.arg = 1000L * pick(40, 700) + pick(1, 3);
    c.plan.push_back(f);
  }
  if (chance(8)) {
    // "EINTR any number of times"
    Fault f;
    f.call = pick(0, (int)approx_calls);
    f.kind = VW_STORM;
    f.arg = pick(34, 150);
    c.plan.push_back(f);
  }
  if (hard) {
    Fault f;
    f.call = pick(0, (int)approx_calls);
    for (auto &g : c.plan)
      if (g.call == f.call) f.call = approx_calls + 7;
    f.kind = chance(75) ? VW_ERROR : VW_ZERO;
    f.arg = one_of<long>({EIO, ENOSPC, EBADF, EFBIG, EAGAIN});
    c.plan.push_back(f);
  }
  return c;
}

// ---------------------------------------------------------------- exhaustive single faults on small tables
static Case small_table(int idx) {
  Case c;
  static const int comps[] = {0, 1, 2, 3, 4, 5};
  c.cfg.comp = comps[idx % 6];
  c.cfg.block_size = 1024;
  c.cfg.restart = 1 + idx % 4;
  c.cfg.pool = (idx / 6) % 3 == 2 ? 2 : -1;
  c.cfg.prefix_len = (idx / 6) % 2 ? 13 : 0;
  int n = 4 + (idx / 18) % 3 * 3;
  for (int i = 0; i < n; i++) {
    SEntry e;
    char k[32];
    snprintf(k, sizeof k, "key%03d", i * 3);
    e.k = BStr::of(k);
    e.v.glen = (uint32_t)(180 + 40 * (i % 3));
    e.v.gseed = (uint32_t)(i + idx);
    e.v.gkind = (uint8_t)(i % 2 ? 2 : 0);
    c.entries.push_back(e);
  }
  return c;
}
static int extra_modes(const WorkerOpts &o, Stats &stats) {
  if (o.mode != "single") return 2;
  int tables = (int)o.geti("tables", 1);
  for (int ti = 0; ti < tables; ti++) {
    int idx = o.worker + ti * o.nworkers + (int)(o.seed % 54);
    Case base = small_table(idx % 54);
    KVs kv = expand_entries(base.entries);
    // soft faults: all in one child
    std::string failing;
    Result r = run_isolated([&](Result &rr) {
      Profile p = profile_of(base, kv);
      long long n = 0;
      for (size_t call = 0; call < p.sizes.size(); call++) {
        long len = p.sizes[call];
        std::vector<long> shorts;
        if (len <= 64) for (long k = 1; k < len; k++) shorts.push_back(k);
        else {
          shorts = {1, 2, 3, 7, len / 2, len - 1, len - 2, 63, 64, 65};
          for (int j = 1; j <= 6; j++) shorts.push_back(1 + (len * j) / 7 % (len - 1));
        }
        for (long k : shorts) {
          Fault f{(long)call, VW_SHORT, k};
          std::string e = run_soft(base, kv, p, {f});
          n++;
          if (!e.empty()) {
            Case fc = base;
            fc.plan = {f};
            rr.failf("%s\n#REPRO\n%s", e.c_str(), fc.ser().c_str());
            return;
          }
        }
        // two adjacent soft faults inside one retry loop: short write then EINTR on the retry, and EINTR then short write
        for (long k : {1L, len / 2 > 0 ? len / 2 : 1L, len - 1 > 0 ? len - 1 : 1L}) {
          if (len < 2) break;
          for (int order = 0; order < 2; order++) {
            std::vector<Fault> plan = order == 0 ? std::vector<Fault>{Fault{(long)call, VW_SHORT, k}, Fault{(long)call + 1, VW_EINTR, 0}}
                                                 : std::vector<Fault>{Fault{(long)call, VW_EINTR, 0}, Fault{(long)call + 1, VW_SHORT, k}};
            std::string e = run_soft(base, kv, p, plan);
            n++;
            if (!e.empty()) {
              Case fc = base;
              fc.plan = plan;
              rr.failf("%s\n#REPRO\n%s", e.c_str(), fc.ser().c_str());
              return;
            }
          }
        }
        for (int reps : {1, 2, 5}) {
          std::vector<Fault> plan;
          for (int j = 0; j < reps; j++) plan.push_back(Fault{(long)call + j, VW_EINTR, 0});
          std::string e = run_soft(base, kv, p, plan);
          n++;
          if (!e.empty()) {
            Case fc = base;
            fc.plan = plan;
            rr.failf("%s\n#REPRO\n%s", e.c_str(), fc.ser().c_str());
            return;
          }
        }
      }
      rr.counters["single_soft_faults"] = n;
      rr.counters["write_calls"] = (long long)p.sizes.size();
      rr.nontrivial = true;
    }, 900);
    if (r.fail) {
      size_t p = r.msg.find("#REPRO\n");
      std::string repro = p == std::string::npos ? base.ser() : r.msg.substr(p + 7);
      write_file(o.outdir + "/fail.case", repro);
      write_file(o.outdir + "/fail.msg", r.msg.substr(0, p));
      stats.add(repro, r);
      return 1;
    }
    stats.add(base.ser() + "# every single short write / EINTR at every write call\n", r);
    stats.evaluations += r.counters["single_soft_faults"] - 1;
    stats.counters["bulk_distinct_nontrivial"] += r.counters["single_soft_faults"] - 1;
    // hard errors at every call index
    long ncalls = (long)r.counters["write_calls"];
    for (long call = 0; call < ncalls; call++)
      for (int variant = 0; variant < 4; variant++) {
        if (variant && (call + variant) % 3) continue;  // EIO at every call; the other errnos at a third of the calls each
        Case hc = base;
        Fault f;
        f.call = call;
        f.kind = variant == 3 ? VW_ZERO : VW_ERROR;
        f.arg = variant == 0 ? EIO : variant == 1 ? ENOSPC : EBADF;
        hc.plan = {f};
        if (!enum_step<Case>(o, stats, hc, run_case)) return 1;
      }
    // a short write immediately followed by a hard error on the retry of the remainder (the usual disk-full pattern),
    // and an EINTR immediately followed by a hard error, at every call
    for (long call = 0; call < ncalls; call++)
      for (int first = 0; first < 2; first++) {
        Case hc = base;
        Fault f1{call, first == 0 ? VW_SHORT : VW_EINTR, 1};
        Fault f2{call + 1, VW_ERROR, first == 0 ? (long)ENOSPC : (long)EIO};
        hc.plan = {f1, f2};
        if (!enum_step<Case>(o, stats, hc, run_case)) return 1;
      }
  }
  return 0;
}

int main(int argc, char **argv) { return vf_main<Case>(argc, argv, "C20", gen_case, run_case, extra_modes); }
