// Shared by C02/C03/C05/C11: iterator specifications, the cursor model for next/seek
// histories and the derived query set for lookups, generic over any mtbl_source.
#pragma once
#include "../harness/tbl.h"

namespace vf {

// ---------------------------------------------------------------- iterator kinds
struct IterSpec {
  int kind = 0;  // 0 iter, 1 get(a), 2 get_prefix(a), 3 get_range(a,b)
  bytes a, b;
  std::string ser() const {
    static const char *n[] = {"iter", "get", "prefix", "range"};
    return std::string("kind=") + n[kind] + " a=" + (a.empty() ? "-" : hex(a)) + " b=" + (b.empty() ? "-" : hex(b));
  }
  static IterSpec parse(const std::vector<std::string> &row, size_t from) {
    IterSpec s;
    for (size_t i = from; i < row.size(); i++) {
      size_t e = row[i].find('=');
      if (e == std::string::npos) continue;
      std::string k = row[i].substr(0, e), v = row[i].substr(e + 1);
      if (k == "kind") s.kind = v == "get" ? 1 : v == "prefix" ? 2 : v == "range" ? 3 : 0;
      else if (k == "a") s.a = v == "-" ? bytes() : unhex(v);
      else if (k == "b") s.b = v == "-" ? bytes() : unhex(v);
    }
    return s;
  }
  bool in_bound(const bytes &k) const {
    switch (kind) {
      case 1: return k == a;
      case 2: return has_prefix(k, a);
      case 3: return bcmp3(k, b) <= 0;
      default: return true;
    }
  }
  bytes range_start() const { return kind == 0 ? bytes() : a; }
};
inline struct mtbl_iter *open_iter(const struct mtbl_source *s, const IterSpec &sp) {
  switch (sp.kind) {
    case 1: return mtbl_source_get(s, U(sp.a), sp.a.size());
    case 2: return mtbl_source_get_prefix(s, U(sp.a), sp.a.size());
    case 3: return mtbl_source_get_range(s, U(sp.a), sp.a.size(), U(sp.b), sp.b.size());
    default: return mtbl_source_iter(s);
  }
}
inline KVs model_result(const RefTable &m, const IterSpec &sp) {
  switch (sp.kind) {
    case 1: return m.get(sp.a);
    case 2: return m.get_prefix(sp.a);
    case 3: return m.get_range(sp.a, sp.b);
    default: return m.e;
  }
}

inline IterSpec gen_iter_spec(const KVs &kv, const KeyUniverse &u) {
  IterSpec s;
  s.kind = weighted({40, 15, 22, 23});
  auto some_key = [&]() -> bytes {
    if (kv.empty() || chance(10)) return gen_small(u);
    bytes k = kv[(size_t)pick(0, (int)kv.size() - 1)].first;
    switch (weighted({55, 15, 15, 15})) {
      case 1: return key_pred(k);
      case 2: return key_succ(k);
      case 3: return k.substr(0, k.size() / 2);
      default: return k;
    }
  };
  if (s.kind == 1) s.a = some_key();
  else if (s.kind == 2) {
    bytes k = some_key();
    s.a = k.substr(0, (size_t)pick(0, (int)std::min<size_t>(k.size(), 4)));
  } else if (s.kind == 3) {
    s.a = some_key();
    s.b = some_key();
    if (bcmp3(s.a, s.b) > 0 && chance(85)) std::swap(s.a, s.b);
  }
  return s;
}

// ---------------------------------------------------------------- history ops
struct Op {
  int it = 0;
  int type = 0;  // 0 next, 1 seek relative to the model cursor, 2 seek literal
  int delta = 0;
  int variant = 0;  // 0 exact, 1 just below, 2 successor (k.00), 3 drop last byte
  bytes lit;
  std::string ser() const {
    Out o;
    o << "op " << it << " ";
    if (type == 0) o << "next";
    else if (type == 1) o << "seekrel " << delta << " " << variant;
    else o << "seeklit " << (lit.empty() ? "-" : hex(lit));
    return o.str();
  }
  static Op parse(const std::vector<std::string> &row) {
    Op o;
    if (row.size() < 3) return o;
    o.it = atoi(row[1].c_str());
    if (row[2] == "seekrel") {
      o.type = 1;
      o.delta = row.size() > 3 ? atoi(row[3].c_str()) : 0;
      o.variant = row.size() > 4 ? atoi(row[4].c_str()) : 0;
      if (o.variant < 0 || o.variant > 3) o.variant = 0;
    } else if (row[2] == "seeklit") {
      o.type = 2;
      if (row.size() > 3 && row[3] != "-") o.lit = unhex(row[3]);
    }
    return o;
  }
};

inline std::vector<Op> gen_ops(int n_iters, int maxops, const KeyUniverse &u) {
  std::vector<Op> ops;
  int n = pick(1, maxops);
  for (int i = 0; i < n; i++) {
    Op o;
    o.it = n_iters > 1 ? pick(0, n_iters - 1) : 0;
    int t = weighted({62, 32, 6});
    o.type = t;
    if (t == 1) {
      switch (weighted({14, 12, 14, 18, 18, 12, 12})) {
        case 0: o.delta = -1; break;                // the key just returned
        case 1: o.delta = 0; break;                 // the key next() would return anyway
        case 2: o.delta = pick(1, 3); break;        // small forward
        case 3: o.delta = pick(4, 40); break;       // forward, likely other block
        case 4: o.delta = -pick(2, 40); break;      // backward, likely other block
        case 5: o.delta = -1000000; break;          // to the very beginning (clamped to range start)
        default: o.delta = 1000000; break;          // past the end
      }
      o.variant = weighted({55, 18, 18, 9});
    } else if (t == 2) {
      o.lit = chance(30) ? bytes() : gen_small(u);
    }
    ops.push_back(o);
  }
  return ops;
}

// ---------------------------------------------------------------- cursor model + runner
struct ValueCmp {
  // default: exact equality; C05 overrides (token multisets)
  std::function<bool(const bytes &, const bytes &)> eq = [](const bytes &a, const bytes &b) { return a == b; };
};

struct HistStats {
  bool seek_after_block_cross = false, backward_seek = false, seek_to_last_returned = false, seek_after_exhaustion = false;
  int seeks = 0, nexts = 0;
};

// Runs the history against `src`; the model is a RefTable.  Returns "" or a description of the first divergence.
// `block_of` (optional) maps a model index to its block number so block crossings can be classified.
inline std::string run_history(const struct mtbl_source *src, const RefTable &model, const std::vector<IterSpec> &specs,
                               const std::vector<Op> &ops, HistStats &hs, const ValueCmp &vc = ValueCmp(),
                               const std::vector<int> *block_of = nullptr) {
  struct IState {
    struct mtbl_iter *it = nullptr;
    size_t pos = 0;
    bool failed = false;
    // copies of the last handed-out buffers, and where they live
    bool have_buf = false;
    const uint8_t *kp = nullptr, *vp = nullptr;
    bytes kcopy, vcopy;
    int last_block = -1;
    bool crossed = false;  // next() moved into another block since the last seek/open
    bool returned_any = false;
  };
  std::vector<IState> st(specs.size());
  std::string err;
  for (size_t i = 0; i < specs.size(); i++) {
    st[i].it = open_iter(src, specs[i]);
    st[i].pos = model.first_ge(specs[i].range_start());
    if (!st[i].it) {
      // NULL iterator is the empty result
      KVs want = model_result(model, specs[i]);
      if (!want.empty()) {
        err = "iterator " + std::to_string(i) + " (" + specs[i].ser() + ") is NULL but the model holds " + std::to_string(want.size()) + " matching entries";
        goto done;
      }
    }
  }
  for (size_t oi = 0; oi < ops.size(); oi++) {
    const Op &op = ops[oi];
    size_t ii = (size_t)op.it % specs.size();
    IState &s = st[ii];
    const IterSpec &sp = specs[ii];
    // buffers handed out earlier must still be intact right before the next call on this iterator
    if (s.have_buf) {
      if (memcmp(s.kp, s.kcopy.data(), s.kcopy.size()) != 0 || memcmp(s.vp, s.vcopy.data(), s.vcopy.size()) != 0) {
        err = "op " + std::to_string(oi) + ": key/value buffer returned by the previous next() on iterator " + std::to_string(ii) + " was modified before the next call on that iterator";
        goto done;
      }
      s.have_buf = false;
    }
    if (op.type == 0) {
      hs.nexts++;
      const uint8_t *k = nullptr, *v = nullptr;
      size_t lk = 0, lv = 0;
      mtbl_res res = mtbl_iter_next(s.it, &k, &lk, &v, &lv);
      bool want_ok = !s.failed && s.pos < model.e.size() && sp.in_bound(model.e[s.pos].first);
      if (!want_ok) {
        if (res == mtbl_res_success) {
          err = "op " + std::to_string(oi) + " next on iterator " + std::to_string(ii) + " (" + sp.ser() + ") returned key " + show(bytes((const char *)k, lk)) +
                " but the model expects failure (" + (s.failed ? "failure is sticky until the next seek" : "no further entry within the bound") + ")";
          goto done;
        }
        s.failed = true;
      } else {
        const KV &w = model.e[s.pos];
        if (res != mtbl_res_success) {
          err = "op " + std::to_string(oi) + " next on iterator " + std::to_string(ii) + " (" + sp.ser() + ") failed but the model expects key " + show(w.first);
          goto done;
        }
        bytes gk((const char *)k, lk), gv((const char *)v, lv);
        if (gk != w.first) {
          err = "op " + std::to_string(oi) + " next on iterator " + std::to_string(ii) + " (" + sp.ser() + ") returned key " + show(gk) + " but the model expects " + show(w.first);
          goto done;
        }
        if (!vc.eq(gv, w.second)) {
          err = "op " + std::to_string(oi) + " next on iterator " + std::to_string(ii) + " key " + show(gk) + ": value " + show(gv) + " but the model expects " + show(w.second);
          goto done;
        }
        s.have_buf = true;
        s.kp = k;
        s.vp = v;
        s.kcopy = gk;
        s.vcopy = gv;
        if (block_of) {
          int b = (*block_of)[s.pos];
          if (s.last_block >= 0 && b != s.last_block) s.crossed = true;
          s.last_block = b;
        }
        s.returned_any = true;
        s.pos++;
      }
    } else {
      hs.seeks++;
      bytes target;
      if (op.type == 2) target = op.lit;
      else {
        long long idx = (long long)s.pos + op.delta;
        if (idx < 0) idx = 0;
        if (model.e.empty() || idx >= (long long)model.e.size()) target = (model.e.empty() ? bytes() : model.e.back().first) + bytes(1, (char)0xff);
        else target = model.e[(size_t)idx].first;
        if (op.variant == 1) target = key_pred(target);
        else if (op.variant == 2) target = key_succ(target);
        else if (op.variant == 3 && !target.empty()) target.pop_back();
      }
      bytes rs = sp.range_start();
      if (bcmp3(target, rs) < 0) target = rs;  // the property only covers targets at or after the range start
      size_t newpos = model.first_ge(target);
      if (s.crossed) hs.seek_after_block_cross = true;
      if (s.returned_any && newpos < s.pos) hs.backward_seek = true;
      if (s.returned_any && s.pos > 0 && newpos == s.pos - 1 && target == model.e[s.pos - 1].first) hs.seek_to_last_returned = true;
      if (s.failed) hs.seek_after_exhaustion = true;
      (void)mtbl_iter_seek(s.it, U(target), target.size());
      s.pos = newpos;
      s.failed = false;
      s.crossed = false;
      s.last_block = -1;
    }
  }
done:
  for (auto &s : st)
    if (s.it) mtbl_iter_destroy(&s.it);
  return err;
}

// ---------------------------------------------------------------- derived query set (C02 / C05 / C11)
struct QueryStats {
  long long gets = 0, prefixes = 0, ranges = 0, gap_queries = 0, nonfirst_block = 0, inverted_ranges = 0, hits = 0;
};
inline uint32_t lcg(uint32_t &s) {
  s = s * 1664525u + 1013904223u;
  return s >> 8;
}
// seps: index separator keys (may be empty when unknown); firsts/lasts: first/last key per block
inline std::vector<bytes> derived_queries(const RefTable &m, const std::vector<bytes> &seps, const std::vector<bytes> &extra, uint32_t qseed) {
  std::set<bytes, BLess> q;
  q.insert(bytes());
  uint32_t s = qseed | 1;
  size_t n = m.e.size();
  if (n <= 3000) {
    for (auto &kv : m.e) q.insert(kv.first);
  } else {
    // very large tables: every query costs a scan of the model, so query a sample of the keys (plus both ends)
    q.insert(m.e.front().first);
    q.insert(m.e.back().first);
    for (int i = 0; i < 1500; i++) q.insert(m.e[lcg(s) % n].first);
  }
  for (int i = 0; i < 24 && n; i++) {
    const bytes &k = m.e[lcg(s) % n].first;
    q.insert(key_pred(k));
    q.insert(key_succ(k));
    for (size_t l = 0; l < k.size() && l < 40; l++) q.insert(k.substr(0, l));
    if (k.size() > 40) q.insert(k.substr(0, k.size() - 1));
    q.insert(k + bytes(1, (char)(lcg(s) & 0xff)));
    if (!k.empty()) {
      bytes t = k;
      t.back() = (char)((unsigned char)t.back() + 1);
      q.insert(t);
    }
  }
  for (auto &sp : seps) {
    q.insert(sp);
    q.insert(key_pred(sp));
    q.insert(key_succ(sp));
  }
  if (n) q.insert(m.e.back().first + bytes(1, (char)0xff));
  for (auto &e : extra) q.insert(e);
  return std::vector<bytes>(q.begin(), q.end());
}

// compares all three lookup kinds against the model; returns "" or the first divergence
inline std::string run_queries(const struct mtbl_source *src, const RefTable &m, const std::vector<bytes> &qs, uint32_t qseed,
                               QueryStats &st, const ValueCmp &vc = ValueCmp(), const std::vector<bytes> *seps = nullptr,
                               const std::vector<bytes> *lasts = nullptr, const std::vector<bytes> *firsts = nullptr) {
  auto cmp = [&](const char *what, const std::string &qdesc, struct mtbl_iter *it, const KVs &want) -> std::string {
    KVs got;
    if (it) {
      got = drain(it);
      mtbl_iter_destroy(&it);
    }
    size_t n = std::min(got.size(), want.size());
    for (size_t i = 0; i < n; i++) {
      if (got[i].first != want[i].first)
        return std::string(what) + "(" + qdesc + "): result " + std::to_string(i) + " has key " + show(got[i].first) + " but expected " + show(want[i].first);
      if (!vc.eq(got[i].second, want[i].second))
        return std::string(what) + "(" + qdesc + "): key " + show(got[i].first) + " has value " + show(got[i].second) + " but expected " + show(want[i].second);
    }
    if (got.size() != want.size())
      return std::string(what) + "(" + qdesc + "): returned " + std::to_string(got.size()) + " entries but expected " + std::to_string(want.size()) +
             (got.size() > want.size() ? " (first extra " + show(got[n].first) + ")" : " (first missing " + show(want[n].first) + ")");
    st.hits += (long long)want.size();
    return "";
  };
  for (auto &q : qs) {
    std::string e = cmp("get", show(q), mtbl_source_get(src, U(q), q.size()), m.get(q));
    if (!e.empty()) return e;
    st.gets++;
    e = cmp("get_prefix", show(q), mtbl_source_get_prefix(src, U(q), q.size()), m.get_prefix(q));
    if (!e.empty()) return e;
    st.prefixes++;
    if (seps && lasts && firsts) {
      for (size_t b = 0; b < seps->size(); b++) {
        if (bcmp3(q, (*lasts)[b]) > 0 && bcmp3(q, (*seps)[b]) <= 0 && bcmp3((*lasts)[b], (*seps)[b]) < 0) st.gap_queries++;
        else if (b + 1 < firsts->size() && bcmp3(q, (*seps)[b]) > 0 && bcmp3(q, (*firsts)[b + 1]) < 0) st.gap_queries++;
      }
      if (firsts->size() > 1 && bcmp3(q, (*firsts)[1]) >= 0) st.nonfirst_block++;
    }
  }
  // ranges: all ordered pairs of a 12-element sample (so inverted, equal and block-spanning ranges occur)
  std::vector<bytes> sample;
  uint32_t s = (qseed * 2654435761u) | 1;
  for (int i = 0; i < 12 && !qs.empty(); i++) sample.push_back(qs[lcg(s) % qs.size()]);
  for (auto &a : sample)
    for (auto &b : sample) {
      std::string e = cmp("get_range", show(a) + " .. " + show(b), mtbl_source_get_range(src, U(a), a.size(), U(b), b.size()), m.get_range(a, b));
      if (!e.empty()) return e;
      st.ranges++;
      if (bcmp3(a, b) > 0) st.inverted_ranges++;
    }
  return "";
}

}  // namespace vf
