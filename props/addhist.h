// Shared by C08 / C09 / C10: histories of mtbl_writer_add calls with arbitrary (not
// necessarily increasing) keys, and the model of which of them a correct writer accepts.
#pragma once
#include "../harness/tbl.h"
#include "../harness/refcodec.h"

namespace vf {

struct AddHist {
  WConfig cfg;
  std::vector<SEntry> adds;  // in call order

  bool valid() const {
    if (!cfg.null_opts && cfg.restart < 1) return false;
    if (cfg.comp < 0 || cfg.comp > 5 || cfg.pool > 16 || cfg.prefix_len < 0 || cfg.prefix_len > 100000) return false;
    return true;
  }
  void ser(Out &o) const {
    o << cfg.ser() << "\n";
    ser_entries(o, adds, "add");
  }
  void parse_row(const std::vector<std::string> &row) {
    if (row[0] == "config") cfg = WConfig::parse(row);
    else if (row[0] == "add") adds.push_back(parse_entry(row));
  }
  // model: which adds are accepted, and the resulting content
  KVs accepted(const KVs &calls, std::vector<bool> *acc = nullptr) const {
    KVs out;
    for (auto &kv : calls) {
      bool ok = out.empty() || bcmp3(kv.first, out.back().first) > 0;
      if (acc) acc->push_back(ok);
      if (ok) out.push_back(kv);
    }
    return out;
  }
};

inline bytes mutate_key_from(const bytes &L, const KeyUniverse &u) {
  auto sym = [&]() { return (char)u.alphabet[(size_t)pick(0, (int)u.alphabet.size() - 1)]; };
  switch (weighted({26, 18, 10, 8, 10, 6, 12, 10, 6, 6})) {
    case 0: {  // grow: L + suffix (accepted)
      bytes k = L;
      int n = pick(1, 3);
      for (int i = 0; i < n; i++) k.push_back(sym());
      return k;
    }
    case 1: {  // bump a byte at a random position and cut there
      if (L.empty()) return bytes(1, sym());
      size_t p = (size_t)pick(0, (int)L.size() - 1);
      bytes k = L.substr(0, p + 1);
      k[p] = (char)((unsigned char)k[p] + pick(1, 3));  // may wrap around -> smaller (refused)
      return k;
    }
    case 2: return L;  // equal (refused)
    case 3: {          // proper prefix (refused)
      if (L.empty()) return L;
      return L.substr(0, (size_t)pick(0, (int)L.size() - 1));
    }
    case 4: {  // just below L (refused)
      bytes k = key_pred(L);
      if (chance(50)) k.push_back(sym());
      return k;
    }
    case 5: return chance(50) ? bytes() : bytes(1, '\0');  // far smaller
    case 6: {  // flip a byte across the 0x7f/0x80 boundary (signed-compare trap)
      if (L.empty()) return bytes(1, (char)0x80);
      size_t p = (size_t)pick(0, (int)L.size() - 1);
      bytes k = L;
      unsigned char c = (unsigned char)k[p];
      k[p] = (char)(c < 0x80 ? one_of<int>({0x80, 0x81, 0xff}) : one_of<int>({0x7f, 0x01, 0x00}));
      if (chance(50)) k.resize(p + 1);
      return k;
    }
    case 7: {  // successor: L . 00
      return key_succ(L);
    }
    case 8: {  // L followed by ff and one more symbol (accepted): sets up a carry for the next add
      bytes k = L;
      k.push_back((char)0xff);
      if (chance(60)) k.push_back(sym());
      return k;
    }
    default: {  // "carry": L = P c ff ...  ->  P (c+1) 00   (accepted when c < ff; exactly two bytes after the common prefix)
      if (L.size() < 2) return key_succ(L);
      size_t p = (size_t)pick(0, (int)L.size() - 2);
      // prefer a position that is followed by ff
      for (size_t q = 0; q + 1 < L.size(); q++)
        if ((unsigned char)L[q + 1] == 0xff && (unsigned char)L[q] != 0xff && chance(60)) p = q;
      bytes k = L.substr(0, p);
      k.push_back((char)((unsigned char)L[p] + 1));
      k.push_back('\0');
      return k;
    }
  }
}

inline AddHist gen_add_history(int size, bool many_blocks = true) {
  AddHist h;
  h.cfg = gen_config(many_blocks);
  KeyUniverse u = gen_universe();
  int n = weighted({3, 97}) == 0 ? 0 : pick(1, 4 + size);
  bytes last;
  bool have = false;
  int profile = weighted({25, 60, 15});
  for (int i = 0; i < n; i++) {
    bytes k;
    if (!have || chance(4)) k = gen_key_bytes(u, false);
    else k = mutate_key_from(last, u);
    if (k.size() > 70000) k.resize(70000);
    SEntry e;
    e.k = BStr::of(k);
    e.v = gen_value(h.cfg.eff_block_size(), profile);
    h.adds.push_back(e);
    if (!have || bcmp3(k, last) > 0) {
      last = k;
      have = true;
    }
  }
  return h;
}

// ---------------------------------------------------------------- C09 structural validator
// Checks every clause of the C09 statement on a file image; returns "" or the first violated clause.
// `img` holds the file from absolute offset `base` onward (base > 0 only for tables written behind a sparse hole)
inline std::string validate_written_file(const bytes &img, const WConfig &cfg, const KVs &content, ref::DFile *out = nullptr,
                                         Result *r = nullptr, uint64_t base = 0) {
  using namespace ref;
  DFile f = decode_file(img, base);
  if (out) *out = f;
  if (!f.err.empty()) return "independent decoder rejects the file: " + f.err;
  char buf[512];
#define VFAIL(...) do { snprintf(buf, sizeof buf, __VA_ARGS__); return std::string(buf); } while (0)
  if (f.version != 2) VFAIL("writer produced format version %d, expected v2", f.version);
  if (!f.padding_zero) VFAIL("trailer padding is not all zero");
  bytes pre = base ? bytes() : cfg.prefix_bytes();
  if (img.compare(0, pre.size(), pre) != 0) VFAIL("bytes before the table were modified");
  // contiguity
  uint64_t pos = base + pre.size();
  for (size_t i = 0; i < f.data.size(); i++) {
    const DBlock &b = f.data[i];
    if (b.offset != pos) VFAIL("data block %zu starts at %llu, expected %llu (blocks must be contiguous from the initial offset)", i, (unsigned long long)b.offset, (unsigned long long)pos);
    if (!b.len_canonical) VFAIL("data block %zu: length prefix is not a minimal varint", i);
    if (b.crc_field != b.crc_calc) VFAIL("data block %zu: checksum field %08x != CRC32C of stored bytes %08x", i, b.crc_field, b.crc_calc);
    pos += b.total();
  }
  if (f.f[0] != pos) VFAIL("index block offset %llu != end of data blocks %llu", (unsigned long long)f.f[0], (unsigned long long)pos);
  if (!f.index.len_canonical) VFAIL("index block: length prefix is not a minimal varint");
  if (f.index.crc_field != f.index.crc_calc) VFAIL("index block: checksum field %08x != CRC32C of stored bytes %08x", f.index.crc_field, f.index.crc_calc);
  if (pos + f.index.total() + 512 != base + img.size()) VFAIL("file size %llu != index end %llu + 512-byte trailer", (unsigned long long)(base + img.size()), (unsigned long long)(pos + f.index.total()));
  // index entries
  if (f.index.entries.size() != f.data.size()) VFAIL("index has %zu entries for %zu blocks", f.index.entries.size(), f.data.size());
  for (size_t i = 0; i < f.data.size(); i++) {
    const DEntry &ie = f.index.entries[i];
    if (ie.val != varint_bytes(f.data[i].offset)) VFAIL("index entry %zu: value is not the minimal varint of the block offset", i);
    if (f.data[i].entries.empty()) VFAIL("data block %zu is empty", i);
    const bytes &last = f.data[i].entries.back().key;
    if (bcmp3(last, ie.key) > 0) VFAIL("index key %zu %s is below the last key of its block %s", i, show(ie.key).c_str(), show(last).c_str());
    if (i + 1 < f.data.size()) {
      const bytes &nf = f.data[i + 1].entries.front().key;
      if (bcmp3(ie.key, nf) >= 0) VFAIL("index key %zu %s is not below the first key of the next block %s", i, show(ie.key).c_str(), show(nf).c_str());
    }
  }
  // block internals
  size_t R = (size_t)cfg.eff_restart();
  size_t bs = cfg.eff_block_size();
  auto check_block = [&](const DBlock &b, const char *what, size_t bi) -> std::string {
    char lb[400];
#define BFAIL(...) do { snprintf(lb, sizeof lb, __VA_ARGS__); return std::string(what) + " " + std::to_string(bi) + ": " + lb; } while (0)
    if (b.restart64) BFAIL("64-bit restart array in a block of %zu bytes", b.raw.size());
    size_t n = b.entries.size();
    size_t want_restarts = n == 0 ? 1 : (n + R - 1) / R;
    if (b.restarts.size() != want_restarts) BFAIL("%zu restart points for %zu entries at interval %zu (expected %zu)", b.restarts.size(), n, R, want_restarts);
    if (b.restarts[0] != 0) BFAIL("first restart offset is %llu, not 0", (unsigned long long)b.restarts[0]);
    for (size_t j = 0; j < b.restarts.size(); j++) {
      if (j && b.restarts[j] <= b.restarts[j - 1]) BFAIL("restart offsets not strictly increasing");
      if (n == 0) continue;
      size_t ei = j * R;
      if (ei >= n || b.entries[ei].off != b.restarts[j]) BFAIL("restart %zu (offset %llu) does not point at entry %zu", j, (unsigned long long)b.restarts[j], ei);
      if (b.entries[ei].shared != 0) BFAIL("restart %zu points at an entry with shared=%u", j, b.entries[ei].shared);
    }
    for (size_t j = 0; j < n; j++) {
      const DEntry &e = b.entries[j];
      if (!e.canonical) BFAIL("entry %zu header uses non-minimal varints", j);
      if (j % R == 0) {
        if (e.shared != 0) BFAIL("entry %zu is at a restart position but has shared=%u", j, e.shared);
      } else {
        const bytes &p = b.entries[j - 1].key;
        size_t lcp = 0;
        while (lcp < p.size() && lcp < e.key.size() && p[lcp] == e.key[lcp]) lcp++;
        if (e.shared != lcp) BFAIL("entry %zu shares %u bytes but the longest common prefix with its predecessor is %zu", j, e.shared, lcp);
      }
      if (j && bcmp3(b.entries[j - 1].key, e.key) >= 0) BFAIL("keys not strictly increasing at entry %zu", j);
    }
    return "";
#undef BFAIL
  };
  for (size_t i = 0; i < f.data.size(); i++) {
    std::string e = check_block(f.data[i], "data block", i);
    if (!e.empty()) return e;
    if (i && bcmp3(f.data[i - 1].entries.back().key, f.data[i].entries.front().key) >= 0) VFAIL("keys not increasing across blocks %zu/%zu", i - 1, i);
    // size rule, both directions
    if (f.data[i].entries.size() > 1 && f.data[i].raw.size() > bs) VFAIL("data block %zu holds %zu entries and is %zu bytes, above the configured block size %zu", i, f.data[i].entries.size(), f.data[i].raw.size(), bs);
    if (i + 1 < f.data.size()) {
      const DEntry &nx = f.data[i + 1].entries.front();
      size_t would = f.data[i].raw.size() + 15 + nx.key.size() + nx.val.size();
      if (would < bs) VFAIL("data block %zu (%zu bytes) was closed although the next entry (%zu+%zu bytes, +15 header) would only bring it to %zu < block size %zu", i, f.data[i].raw.size(), nx.key.size(), nx.val.size(), would, bs);
    }
  }
  {
    std::string e = check_block(f.index, "index block", 0);
    if (!e.empty()) return e;
  }
  std::string d = diff_kvs(f.all(), content);
  if (!d.empty()) return "decoded content differs from the accepted entries: " + d;
  if (r) {
    if (f.data.size() >= 2) r->tag("multi_block");
    if (f.index.restarts.size() >= 2) r->tag("index_multi_restart");
    for (auto &b : f.data)
      if (b.restarts.size() >= 2) {
        r->tag("block_multi_restart");
        break;
      }
    for (auto &b : f.data)
      if (b.entries.size() == 1 && b.raw.size() > bs) {
        r->tag("oversize_single_entry_block");
        break;
      }
  }
  return "";
#undef VFAIL
}

}  // namespace vf
