#!/usr/bin/env python3
"""seedsave.py <name> <property> <caught-by comma list> <missed-by comma list> <needs...>  — file a confirmed seeded change
from /tmp/wt-<name>/out under /verif/seeded/<name>/ (patch.diff, demonstration, notes, meta.json)."""
import sys, os, shutil, json, subprocess
name, prop, caught, missed = sys.argv[1:5]
needs = " ".join(sys.argv[5:])
src = "/tmp/wt-%s/out" % name
dst = "/verif/seeded/%s" % name
os.makedirs(dst, exist_ok=True)
for f in os.listdir(src):
    p = os.path.join(src, f)
    if os.path.isfile(p) and os.path.getsize(p) < 400000 and not f.endswith(".log") and f not in ("demo",) and not os.access(p, os.X_OK) or f.endswith(".sh"):
        shutil.copy(p, os.path.join(dst, f))
meta = {
    "breaks_property": prop,
    "origin": "fresh sub-agent given only the property text and a scratch worktree of /repo (nothing from /verif)",
    "needs_to_manifest": needs,
    "confirmed_by": "./seedconfirm.sh %s: fresh worktree of /repo HEAD; demo exits 0 on the unchanged tree; with patch.diff applied `make check` passes 15/15 and the demo exits non-zero" % name,
    "checks_run": "./selftest <patch> <id> (quick tier against a scratch copy of /repo with the patch applied)",
    "caught_by": [c for c in caught.split(",") if c and c != "-"],
    "missed_by": [c for c in missed.split(",") if c and c != "-"],
    "repo_head": subprocess.check_output(["git", "-C", "/repo", "rev-parse", "--short", "HEAD"], text=True).strip(),
}
json.dump(meta, open(os.path.join(dst, "meta.json"), "w"), indent=1)
print("saved", dst, sorted(os.listdir(dst)))
