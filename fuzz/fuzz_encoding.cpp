// libFuzzer target for C11: the input bytes ARE the encoding choices (format version, algorithm, block partition, restart
// positions, sharing, separators) and the logical content; the independent encoder builds the file and the real reader
// must return exactly the encoded entries (iteration, lookups incl. separators as prefixes, seeks).
#define VF_MAIN
#include "../props/c11_common.h"

extern "C" int LLVMFuzzerTestOneInput(const uint8_t *data, size_t size) {
  Case c = decode_fuzz11(data, size);
  if (!c.valid()) return 0;
  Result r;
  g_c11_light = true;
  check_case(c, r);
  if (r.fail) {
    fprintf(stderr, "ORACLE: %s\n", r.msg.c_str());
    __builtin_trap();
  }
  return 0;
}
