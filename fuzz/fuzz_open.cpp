// libFuzzer target for C19: coverage-guided search over (base file, field mutations) / raw files.
// Oracle inside the target: mtbl_reader_init* may return NULL, a reader, or stop on an assertion (recovered);
// any out-of-file access is an ASan report on the heap-backed mapping.
#define VF_MAIN
#include "../props/c19_common.h"

static bytes g_bases[NBASE];
static bool g_init = false;
static long g_execs = 0, g_gate = 0;

extern "C" int LLVMFuzzerTestOneInput(const uint8_t *data, size_t size) {
  if (!g_init) {
    for (int i = 0; i < NBASE; i++) g_bases[i] = make_base(i);
    g_init = true;
  }
  Case c = decode_fuzz(data, size);
  bytes img = c.base == -1 ? c.raw : g_bases[c.base];
  for (auto &m : c.muts) apply_mut(img, m);
  g_execs++;
  if (gate_passed(img)) g_gate++;
  try_open(img, c.verify, 0);
  return 0;
}
