// libFuzzer target for C15: bytes -> (algorithm, entry point, level, buffer); oracle = compress/decompress round trip,
// "failure" results are fine, an abort or a changed buffer is not.
#define VF_MAIN
#include "../props/c15_common.h"

extern "C" int LLVMFuzzerTestOneInput(const uint8_t *data, size_t size) {
  int algo, entry, level;
  bytes buf;
  decode_fuzz15(data, size, algo, entry, level, buf);
  std::string err;
  if (!roundtrip(algo, entry, level, buf, err)) {
    fprintf(stderr, "ORACLE: %s\n", err.c_str());
    __builtin_trap();
  }
  return 0;
}
