#!/usr/bin/env python3
"""Regenerates MANIFEST.json from harness/vfprops.py (single source of truth for the registered checks)."""
import json, os, sys
HERE = os.path.dirname(os.path.abspath(__file__))
sys.path.insert(0, os.path.join(HERE, "harness"))
from vfprops import PROPS, MANIFEST_META  # noqa

ALL = ["C%02d" % i for i in range(1, 21)]
checks = []
for pid in ALL:
    if pid not in PROPS:
        continue
    P = PROPS[pid]
    M = P["manifest"]
    c = {
        "property_id": pid,
        "quick_cmd": "./vf %s --tier quick" % pid,
        "evidence_file": "evidence/%s.json" % pid,
        "replay_cmd_template": "./vf %s --replay {path}" % pid,
        "engine": M.get("engine", "rapidcheck"),
        "level_claimed": {"category": P["level"], "text": M["level_text"], "design_ref": "DESIGN.md section 5, " + pid},
        "level_note": M["level_note"],
        "technique": M["technique"],
    }
    if "thorough" in P["tiers"]:
        c["thorough_cmd"] = "./vf %s --tier thorough" % pid
    checks.append(c)
na = [{"property_id": pid, "reason": MANIFEST_META["pending_reason"].get(pid, "check not built yet (work in progress, DESIGN.md section 10 build order)")}
      for pid in ALL if pid not in PROPS]
m = {
    "version": 1,
    "setup_cmd": "./setup.sh",
    "hooks": MANIFEST_META["hooks"],
    "engines": MANIFEST_META["engines"],
    "checks": checks,
    "not_applicable": na,
    "notes": MANIFEST_META["notes"],
}
for e in m["engines"]:
    e["serves_properties"] = [c["property_id"] for c in checks if c["engine"] == e["name"] or e["name"] in PROPS[c["property_id"]]["manifest"].get("also_engines", [])]
json.dump(m, open(os.path.join(HERE, "MANIFEST.json"), "w"), indent=1)
print("MANIFEST.json: %d checks, %d not_applicable" % (len(checks), len(na)))
