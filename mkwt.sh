#!/bin/bash
# mkwt.sh <name>  — create a scratch git worktree of /repo under /tmp/wt-<name> with the (untracked) autotools build
# infrastructure copied in, ready for `make -j8 && make check`.  Used for sub-agent seeded changes; remove with
# `git -C /repo worktree remove --force /tmp/wt-<name>`.
set -e
d=/tmp/wt-$1
git -C /repo worktree add -q --detach "$d" HEAD
rsync -a --exclude .git --exclude '*.o' --exclude '*.lo' --exclude '*.la' --exclude '.libs' --exclude '.deps' --exclude '*.log' --exclude '*.trs' --ignore-existing /repo/ "$d"/
mkdir -p "$d/out"
( cd "$d" && make -j8 >/dev/null 2>&1 && make check >/dev/null 2>&1 ) || { echo "baseline build/check failed in $d"; exit 1; }
echo "$d ready"
