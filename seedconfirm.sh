#!/bin/bash
# seedconfirm.sh <name> [<check-id>...] — independently confirm a sub-agent's seeded change found in /tmp/wt-<name>/out and
# run the named checks against it.  Confirms in a FRESH scratch worktree: (1) patch applies to /repo HEAD, (2) `make check`
# still passes 15/15 with it, (3) the demo fails with it, (4) the demo passes without it.  Then ./selftest.
# Results are printed; nothing is written under /repo.
set -u
name="$1"; shift
src=/tmp/wt-$name/out
[ -f "$src/patch.diff" ] || { echo "no $src/patch.diff"; exit 2; }
c=conf-$name
git -C /repo worktree remove --force /tmp/wt-$c >/dev/null 2>&1
/verif/mkwt.sh $c >/dev/null || { echo "cannot create confirm worktree"; exit 2; }
w=/tmp/wt-$c
cp -a "$src/." "$w/out/"
# demos sometimes hard-code the seeder's own worktree path: point them at the confirmation worktree instead
grep -rlI "/tmp/wt-$name" "$w/out" 2>/dev/null | xargs -r sed -i "s|/tmp/wt-$name|$w|g"
rm -f "$w/out/demo"
cd "$w"
run_demo() { ( cd "$w" && if [ -x out/run_demo.sh ]; then timeout 600 out/run_demo.sh; elif [ -f out/run_demo.sh ]; then timeout 600 bash out/run_demo.sh; else echo "no run_demo.sh"; exit 99; fi ) >"$w/out/demo.$1.log" 2>&1; echo $?; }
base_rc=$(run_demo base)
if ! git apply --check out/patch.diff 2>/dev/null; then echo "CONFIRM $name: patch does not apply to /repo HEAD"; git -C /repo worktree remove --force "$w"; exit 1; fi
git apply out/patch.diff
make -j8 >out/make.log 2>&1 || { echo "CONFIRM $name: does not build"; tail -5 out/make.log; git -C /repo worktree remove --force "$w"; exit 1; }
npass=$(make check 2>&1 | sed -n 's/^# PASS: *//p')
mut_rc=$(run_demo mut)
echo "CONFIRM $name: demo on unchanged tree rc=$base_rc; with change: make check PASS=$npass, demo rc=$mut_rc"
ok=0; [ "$base_rc" = 0 ] && [ "$npass" = 15 ] && [ "$mut_rc" != 0 ] && [ "$mut_rc" != 99 ] && ok=1
echo "CONFIRMED=$ok"
cp out/patch.diff /tmp/seed-$name.patch
git -C /repo worktree remove --force "$w"
[ $ok = 1 ] || exit 1
cd /verif
[ $# -gt 0 ] && ./selftest /tmp/seed-$name.patch "$@"
exit 0
